"""T-tier, constructor grammar: the parametric constructors of `wavespectra/construct/` and `core.utils.scaled`
→ Lean definitions for ONE parameter set (`lean/WsVerif/Gen/ConKernels.lean`), bridged to `Model/Construct.lean` /
`Model/ConstructArgs.lean` by the theorems `C15.gencon_*` (`Props/C15con.lean`).

Called from `translate.generate()` after the last generator.  Grammar (anything else raises `Untranslatable`, the
function is then reported as untranslatable = broken tie, never skipped silently):

* values are labelled arrays over the dimensions `freq` / `dir` (scalars have none); arithmetic broadcasts by dimension
  name.  A value that is an elementwise function of the parameters and coordinates keeps a SCALAR form (`elem`) in the
  element variables; it is materialised (`List.map` / `List.zipWith`) only when it meets a value without scalar form
  (an oracle table, a reduction).  2-D arrays are lists of rows, one row per frequency (dimension order is plumbing).
* `+ - * /`, unary minus, `%` (→ `WS.pmod`), `**` with a literal integer exponent (`x ** -n` → `1 / x ^ n`), comparisons,
  `np.abs`, `np.deg2rad` (→ `x * (pi / 180)`), `np.maximum/np.minimum` (→ `WS.maxR/minR`), `xr.where/np.where(c, a, b)`,
  `x.where(c, other)`, `x.sum(attrs.DIRNAME)`, `x.size`, `x.fillna(0.0)`, `x.spec.hs()` (→ the regenerated accessor
  `Gen.xrHs` on the `nf × 1` reading of a 1-D spectrum), `scipy.constants.pi/g` and the oracle function `sqrt` as leading
  parameters, `utils.R2D`, calls of `utils.wavenuma` (→ `Gen.wavenuma`), calls of functions of this grammar
  (positional / keyword / defaults; `**kwargs` of the callee swallows unknown keywords as Python does).
* transcendentals: `np.exp/np.tanh/np.sinh/np.cos/np.sqrt(A)` of an array and `X ** Y` with a non-literal exponent become
  ORACLE TABLE parameters (composite chains such as `gamma ** np.exp(A)` or `np.cos(A) ** (2 * s)` are one table); the
  call chain is emitted as `<kernel>_<table>_fn` (`·k` = k-th argument) and every argument expression as its own scalar
  function `<kernel>_<table>_arg<k>` of ALL numeric parameters of the kernel in signature order (vectors as their
  elements).  `np.sqrt` of a scalar is the oracle function `sqrt`.
* division: by a value that depends on a reduction (`.sum`, `.spec.hs()`) → guarded (`WS.divOpt`, NaN = `none`, tracked
  per frequency row); every other divisor is listed in `<kernel>_divisors` and divided by with total rational division.
* statements: assignments, `if <optional arg> is not None:` (→ `match`), `if <bool arg>:`, `return`; the idioms of
  `conditional` (`inspect` frame → all arguments by name, `globals()[when_true]`) and of `construct_partition`
  (`load_function(module, name)(**kwargs)` → a parameter named after the assigned variable).
* xarray plumbing (`check_same_coordinates`, `to_coords`, `.name = …`, `set_spec_attributes`, `xr.broadcast` of two
  arrays of the same dimensions, `import inspect`) is not translated: pinned as source text in `<kernel>_plumbing`.
"""
import ast

from .translate import Untranslatable, _module, body_stmts, find_func, lean_str, rat, write_if_changed

FREQ_PY = "wavespectra/construct/frequency.py"
DIR_PY = "wavespectra/construct/direction.py"
INIT_PY = "wavespectra/construct/__init__.py"
UTILS_PY = "wavespectra/core/utils.py"

F, D = "freq", "dir"
ARITH = {ast.Add: "+", ast.Sub: "-", ast.Mult: "*", ast.Div: "/"}
CMP = {ast.Lt: "<", ast.LtE: "≤", ast.Gt: ">", ast.GtE: "≥", ast.Eq: "=", ast.NotEq: "≠"}
TRANS = {"np.exp": "ex", "np.tanh": "th", "np.sinh": "sh", "np.cos": "cs", "np.sqrt": "sq"}
RESERVED = {"at", "fun", "do", "then", "end", "have", "show", "let", "match", "with", "by", "open", "def", "theorem", "where",
            "from", "in", "if", "else", "instance", "structure", "class", "mut", "for", "return", "namespace", "section",
            "variable", "example", "axiom", "deriving", "private", "pi", "g", "sqrt", "nd", "some", "none"}
LEADS = ("nd", "pi", "g", "sqrt")
LEAD_TY = {"nd": "Nat", "pi": "Rat", "g": "Rat", "sqrt": "Rat → Rat"}


def _dims(*ds):
    s = set()
    for d in ds:
        s |= set(d)
    return tuple(x for x in (F, D) if x in s)


def _uniq(*ls):
    out = []
    for l in ls:
        for x in l:
            if x not in out:
                out.append(x)
    return tuple(out)


class V:
    """A value of the abstract interpretation.

    kind: num | prop (boolean array; `elem` is a Prop) | bool (scalar Bool) | optrat (argument that may be None) |
          str | func | dynfunc | frame | args | dict
    dims: subset of (freq, dir); elem: scalar Lean term in the element variables (or None); term: array-level Lean term;
    nan: None | "whole" (`Option array`) | "row" (one `Option` per frequency); red: depends on a reduction;
    fb / db: names of the vectors whose elements `elem` mentions, per axis; leads: leading parameters used."""

    def __init__(self, kind="num", dims=(), elem=None, term=None, nan=None, red=False, fb=(), db=(), leads=(), lit=None,
                 data=None):
        self.kind, self.dims, self.elem, self.term, self.nan, self.red = kind, tuple(dims), elem, term, nan, red
        self.fb, self.db, self.leads, self.lit, self.data = tuple(fb), tuple(db), frozenset(leads), lit, data

    def key(self):
        return (self.kind, self.dims, self.nan)


def lean_ty(v):
    if v.kind == "bool":
        return "Bool"
    if v.kind == "optrat":
        return "Option Rat"
    if v.kind == "str":
        return "String"
    el = "Bool" if v.kind == "prop" else "Rat"
    if v.kind not in ("num", "prop"):
        raise Untranslatable("no Lean type for a value of kind " + v.kind)
    if v.nan is None:
        return {(): el, (F,): f"List {el}", (D,): f"List {el}", (F, D): f"List (List {el})"}[v.dims]
    if v.nan == "whole" and v.dims != (F, D):
        return {(): f"Option {el}", (F,): f"Option (List {el})", (D,): f"Option (List {el})"}[v.dims]
    if v.nan == "row" and v.dims in ((F,), (F, D)):
        return {(F,): f"List (Option {el})", (F, D): f"List (Option (List {el}))"}[v.dims]
    raise Untranslatable(f"no Lean type for dims {v.dims} with NaN tracking {v.nan}")


class Table:
    def __init__(self, name, dims, chain, args, leads):
        self.name, self.dims, self.chain, self.args, self.leads = name, dims, chain, args, leads  # args: [(src, elem)]

    def ty(self):
        return lean_ty(V(dims=self.dims))


class Ctx:
    """Bookkeeping of one generated (root) definition."""

    def __init__(self, lean):
        self.lean = lean
        self.leads = set()
        self.tables = []
        self.divisors = []
        self.plumbing = []
        self.calls = []          # pinned text of dynamic calls
        self.extra_params = []   # (name, V) parameters standing for the results of dynamic calls
        self.coord = {}          # axis -> Lean term of the coordinate vector

    def table_name(self, base):
        names = {t.name for t in self.tables}
        if base not in names:
            return base
        i = 2
        while f"{base}{i}" in names:
            i += 1
        return f"{base}{i}"


def zipdims(da, A, db, B, f):
    """array-level combination of two plain arrays `A : da`, `B : db` by the scalar function `f(x, y)` (a Lean term)"""
    da, db = tuple(da), tuple(db)
    if da == db:
        if da == ():
            return f(A, B)
        if da in ((F,), (D,)):
            return f"(List.zipWith (fun a b => {f('a', 'b')}) {A} {B})"
        return f"(List.zipWith (fun ra rb => List.zipWith (fun a b => {f('a', 'b')}) ra rb) {A} {B})"
    if da == ():
        if db == (F, D):
            return f"(List.map (fun row => List.map (fun t => {f(A, 't')}) row) {B})"
        return f"(List.map (fun t => {f(A, 't')}) {B})"
    if db == ():
        if da == (F, D):
            return f"(List.map (fun row => List.map (fun t => {f('t', B)}) row) {A})"
        return f"(List.map (fun t => {f('t', B)}) {A})"
    if da == (F,) and db == (D,):
        return f"(List.map (fun a => List.map (fun b => {f('a', 'b')}) {B}) {A})"
    if da == (D,) and db == (F,):
        return f"(List.map (fun b => List.map (fun a => {f('a', 'b')}) {A}) {B})"
    if da == (F, D) and db == (F,):
        return f"(List.zipWith (fun row w => List.map (fun t => {f('t', 'w')}) row) {A} {B})"
    if da == (F,) and db == (F, D):
        return f"(List.zipWith (fun w row => List.map (fun t => {f('w', 't')}) row) {A} {B})"
    if da == (F, D) and db == (D,):
        return f"(List.map (fun row => List.zipWith (fun a b => {f('a', 'b')}) row {B}) {A})"
    if da == (D,) and db == (F, D):
        return f"(List.map (fun row => List.zipWith (fun a b => {f('a', 'b')}) {A} row) {B})"
    raise Untranslatable(f"broadcast {da} with {db}")


# ------------------------------------------------------------------------------------------------
# signatures of the functions of the grammar and the parameter set they are generated for
# ------------------------------------------------------------------------------------------------
def P(kind="num", dims=(), nan=None):
    return (kind, tuple(dims), nan)


RAT, VF, VD, OPTRAT, BOOL, STR, BVF = P(), P(dims=(F,)), P(dims=(D,)), P("optrat"), P("bool"), P("str"), P("prop", (F,))
ROWS, OVD = P(dims=(F, D), nan="row"), P(dims=(D,), nan="whole")

# python name -> (path, Lean base name, primary parameter types, kwargs of the parameter set, implicit coordinates)
SPECS = {
    "scaled": (UTILS_PY, "conScaled", {"spec": VF, "hs": RAT}, {}, (F,)),
    "pierson_moskowitz": (FREQ_PY, "conPm", {"freq": VF, "fp": RAT, "alpha": RAT, "hs": OPTRAT}, {}, ()),
    "jonswap": (FREQ_PY, "conJonswap", {"freq": VF, "fp": RAT, "alpha": RAT, "gamma": RAT, "sigma_a": RAT, "sigma_b": RAT,
                                       "hs": OPTRAT}, {}, ()),
    "tma": (FREQ_PY, "conTma", {"freq": VF, "fp": RAT, "dep": RAT, "alpha": RAT, "gamma": RAT, "sigma_a": RAT,
                               "sigma_b": RAT, "hs": OPTRAT}, {}, ()),
    "gaussian": (FREQ_PY, "conGaussian", {"freq": VF, "hs": RAT, "fp": RAT, "gw": RAT}, {}, ()),
    "conditional": (FREQ_PY, "conConditional", {"freq": VF, "hs": RAT, "fp": RAT, "cond": BVF, "when_true": STR,
                                               "when_false": STR},
                    {"alpha": RAT, "gamma": RAT, "sigma_a": RAT, "sigma_b": RAT, "gw": RAT}, ()),
    "cartwright": (DIR_PY, "conCartwright", {"dir": VD, "dm": RAT, "dspr": RAT, "under_90": BOOL}, {}, ()),
    "asymmetric": (DIR_PY, "conAsymmetric", {"dir": VD, "freq": VF, "dm": RAT, "dpm": RAT, "dspr": RAT, "dpspr": RAT,
                                            "fm": RAT, "fp": RAT}, {}, ()),
    "construct_partition": (INIT_PY, "conConstructPartition", {"freq_name": STR, "dir_name": STR, "freq_kwargs": P("dict"),
                                                               "dir_kwargs": P("dict")}, {}, ()),
}
# result type of a function loaded dynamically from a module (construct_partition), per generated variant
DYN_RESULT = {"": {"wavespectra.construct.frequency": VF, "wavespectra.construct.direction": ROWS},
              "D": {"wavespectra.construct.frequency": VF, "wavespectra.construct.direction": OVD}}
# where the names used by the grammar must come from (module-level imports of the translated file)
IMPORTS = {"scaled": "wavespectra.core.utils:scaled", "wavenuma": "wavespectra.core.utils:wavenuma",
           "R2D": "wavespectra.core.utils:R2D", "check_same_coordinates": "wavespectra.core.utils:check_same_coordinates",
           "to_coords": "wavespectra.core.utils:to_coords", "load_function": "wavespectra.core.utils:load_function",
           "attrs": "wavespectra.core.attributes:attrs", "set_spec_attributes": "wavespectra.core.attributes:set_spec_attributes",
           "pi": "scipy.constants:pi", "g": "scipy.constants:g", "np": "numpy", "xr": "xarray", "inspect": "inspect"}


def module_bindings(path):
    """name -> origin for module-level `import a as b` (`a`) / `from m import a as b` (`m:a`); `def` → 'def';
    a name bound more than once at module level is 'ambiguous'"""
    out = {}

    def put(k, v):
        out[k] = v if k not in out else "ambiguous"

    for st in _module(path).body:
        if isinstance(st, ast.ImportFrom) and st.module:
            for a in st.names:
                put(a.asname or a.name, f"{st.module}:{a.name}")
        elif isinstance(st, ast.Import):
            for a in st.names:
                put(a.asname or a.name, a.name)
        elif isinstance(st, (ast.FunctionDef, ast.ClassDef)):
            put(st.name, "def")
        elif isinstance(st, ast.Assign):
            for t in st.targets:
                if isinstance(t, ast.Name):
                    put(t.id, "assigned")
        elif not (isinstance(st, ast.Expr) and isinstance(st.value, ast.Constant)):
            # anything else at module level (loops, conditionals, augmented assignments) could rebind a name
            for n in ast.walk(st):
                if isinstance(n, ast.Name) and isinstance(n.ctx, ast.Store):
                    put(n.id, "assigned")
    return out


class Gen:
    """All generated definitions of one run (memoised by function and argument types)."""

    def __init__(self):
        self.defs = {}      # (pyname, typekey, variant) -> DefInfo
        self.order = []     # emitted text blocks in dependency order
        self.status = {}

    def ensure(self, pyname, types, variant=""):
        key = (pyname, tuple(sorted(types.items())), variant)
        if key in self.defs:
            info = self.defs[key]
            if info is None:
                raise Untranslatable(f"recursive call of {pyname}")
            return info
        self.defs[key] = None
        try:
            info = Root(self, pyname, types, variant).build()
        except Exception:
            del self.defs[key]
            raise
        self.defs[key] = info
        self.order.append(info.text)
        return info


class DefInfo:
    def __init__(self, lean, leads, implicit, params, tables, ret, text):
        self.lean, self.leads, self.implicit, self.params, self.tables, self.ret, self.text = lean, leads, implicit, params, tables, ret, text


def _lit_int(e):
    if isinstance(e, ast.Constant) and isinstance(e.value, int) and not isinstance(e.value, bool):
        return e.value
    if isinstance(e, ast.UnaryOp) and isinstance(e.op, ast.USub) and isinstance(e.operand, ast.Constant) \
            and isinstance(e.operand.value, int) and not isinstance(e.operand.value, bool):
        return -e.operand.value
    return None


def _fname(e):
    return ast.unparse(e.func) if isinstance(e, ast.Call) else None


def _is_dirname(e):
    return ast.unparse(e) == "attrs.DIRNAME"


class Interp:
    """Abstract interpretation of one function body (root: emits `let` lines; inline: only types, tables, elems)."""

    def __init__(self, gen, ctx, pyname, path, fn, env, variant=""):
        self.gen, self.ctx, self.pyname, self.path, self.fn, self.env, self.variant = gen, ctx, pyname, path, fn, env, variant
        self.bind = module_bindings(path)
        self.lines = []
        self.ret = None
        self.base_names = {n for n, v in env.items() if v.kind in ("num", "prop") and v.dims}

    # ------------------------------------------------------------------------------------- helpers
    def need(self, name):
        want = IMPORTS.get(name)
        got = self.bind.get(name)
        if want is None or got != want:
            raise Untranslatable(f"{self.pyname}: `{name}` is bound to {got}, expected an import from {want}")

    def emit(self, ind, text):
        self.lines.append((ind, text))

    def mat(self, v):
        if v.term is not None:
            return v.term
        if v.elem is None:
            raise Untranslatable(f"{self.pyname}: value of kind {v.kind} has no Lean term")
        body = v.elem if v.kind != "prop" else f"decide ({v.elem})"

        def over(bases, body):
            if len(bases) == 1:
                return f"(List.map (fun {bases[0]} => {body}) {bases[0]})"
            if len(bases) == 2:
                return f"(List.zipWith (fun {bases[0]} {bases[1]} => {body}) {bases[0]} {bases[1]})"
            raise Untranslatable(f"{self.pyname}: elementwise value over {len(bases)} vectors of one axis")

        if v.dims == ():
            return body
        if v.dims == (F,):
            return over(v.fb, body)
        if v.dims == (D,):
            return over(v.db, body)
        return over(v.fb, over(v.db, body))

    def map1(self, a, f):
        """unary elementwise operation"""
        if a.kind != "num":
            raise Untranslatable(f"{self.pyname}: arithmetic on a value of kind {a.kind}")
        if a.elem is not None and a.nan is None:
            return V(dims=a.dims, elem=f(a.elem), fb=a.fb, db=a.db, leads=a.leads, red=a.red)
        A = self.mat(a)

        def plain(dims, X):
            if dims == ():
                return f(X)
            if dims == (F, D):
                return f"(List.map (fun row => List.map (fun t => {f('t')}) row) {X})"
            return f"(List.map (fun t => {f('t')}) {X})"

        if a.nan is None:
            term = plain(a.dims, A)
        elif a.nan == "whole":
            term = f"(Option.map (fun x => {plain(a.dims, 'x')}) {A})"
        else:
            inner = tuple(d for d in a.dims if d != F)
            term = f"(List.map (fun r => Option.map (fun x => {plain(inner, 'x')}) r) {A})"
        return V(dims=a.dims, term=term, nan=a.nan, leads=a.leads, red=a.red)

    def combine(self, a, b, f, kind="num"):
        for x in (a, b):
            if x.kind not in ("num", "prop"):
                raise Untranslatable(f"{self.pyname}: arithmetic on a value of kind {x.kind}")
        leads, red, dims = a.leads | b.leads, a.red or b.red, _dims(a.dims, b.dims)
        if a.elem is not None and b.elem is not None and a.nan is None and b.nan is None:
            return V(kind, dims, elem=f(a.elem, b.elem), fb=_uniq(a.fb, b.fb), db=_uniq(a.db, b.db), leads=leads, red=red)
        A, B = self.mat(a), self.mat(b)
        g = f if kind == "num" else (lambda x, y: f"decide {f(x, y)}")
        mk = lambda term, nan, d=dims: V(kind, d, term=term, nan=nan, leads=leads, red=red)
        if a.nan is None and b.nan is None:
            return mk(zipdims(a.dims, A, b.dims, B, g), None)
        if a.nan == "whole" and b.nan is None and (set(b.dims) <= set(a.dims) or a.dims == ()) and dims != (F, D):
            return mk(f"(Option.map (fun x => {zipdims(a.dims, 'x', b.dims, B, g)}) {A})", "whole")
        if b.nan == "whole" and a.nan is None and (set(a.dims) <= set(b.dims) or b.dims == ()) and dims != (F, D):
            return mk(f"(Option.map (fun y => {zipdims(a.dims, A, b.dims, 'y', g)}) {B})", "whole")
        if a.nan == "whole" and b.nan == "whole" and a.dims == b.dims:
            return mk(f"(Option.bind {A} fun x => Option.map (fun y => {zipdims(a.dims, 'x', b.dims, 'y', g)}) {B})", "whole")
        if a.nan is None and a.dims == (F,) and b.nan == "whole" and b.dims == (D,):
            return mk(f"(List.map (fun x => Option.map (fun y => {zipdims((), 'x', (D,), 'y', g)}) {B}) {A})", "row")
        if b.nan is None and b.dims == (F,) and a.nan == "whole" and a.dims == (D,):
            return mk(f"(List.map (fun y => Option.map (fun x => {zipdims((D,), 'x', (), 'y', g)}) {A}) {B})", "row")
        if b.nan == "row" and a.nan is None:
            inner = tuple(d for d in b.dims if d != F)
            if a.dims == ():
                return mk(f"(List.map (fun r => Option.map (fun y => {zipdims((), A, inner, 'y', g)}) r) {B})", "row")
            if F in a.dims:
                ia = tuple(d for d in a.dims if d != F)
                return mk(f"(List.zipWith (fun x r => Option.map (fun y => {zipdims(ia, 'x', inner, 'y', g)}) r) {A} {B})", "row")
            if a.dims == (D,) and inner == (D,):
                return mk(f"(List.map (fun r => Option.map (fun y => {zipdims((D,), A, (D,), 'y', g)}) r) {B})", "row")
        if a.nan == "row" and b.nan is None:
            inner = tuple(d for d in a.dims if d != F)
            if b.dims == ():
                return mk(f"(List.map (fun r => Option.map (fun x => {zipdims(inner, 'x', (), B, g)}) r) {A})", "row")
            if F in b.dims:
                ib = tuple(d for d in b.dims if d != F)
                return mk(f"(List.zipWith (fun r y => Option.map (fun x => {zipdims(inner, 'x', ib, 'y', g)}) r) {A} {B})", "row")
            if b.dims == (D,) and inner == (D,):
                return mk(f"(List.map (fun r => Option.map (fun x => {zipdims((D,), 'x', (D,), B, g)}) r) {A})", "row")
        raise Untranslatable(f"{self.pyname}: broadcast of {a.dims}/{a.nan} with {b.dims}/{b.nan}")

    def where3(self, c, x, y):
        if c.kind != "prop":
            raise Untranslatable(f"{self.pyname}: condition of `where` is not a boolean array")
        if c.elem is not None and x.elem is not None and y.elem is not None and x.nan is None and y.nan is None:
            return V(dims=_dims(c.dims, x.dims, y.dims), elem=f"(if {c.elem} then {x.elem} else {y.elem})",
                     fb=_uniq(c.fb, x.fb, y.fb), db=_uniq(c.db, x.db, y.db), leads=c.leads | x.leads | y.leads,
                     red=x.red or y.red or c.red)
        if y.elem is not None and y.dims == () and y.nan is None:
            r = self.combine(c, x, lambda cv, t: f"(if {cv} then {t} else {y.elem})")
            r.leads |= y.leads
            return r
        if x.elem is not None and x.dims == () and x.nan is None:
            r = self.combine(c, y, lambda cv, t: f"(if {cv} then {x.elem} else {t})")
            r.leads |= x.leads
            return r
        if c.dims == x.dims == y.dims and c.dims in ((F,), (D,)) and x.nan == y.nan and x.nan in (None, "whole"):
            C, X, Y = self.mat(c), self.mat(x), self.mat(y)
            sel = lambda X, Y: f"(List.zipWith (fun c p => if c then p.1 else p.2) {C} (List.zip {X} {Y}))"
            leads, red = c.leads | x.leads | y.leads, x.red or y.red
            if x.nan is None:
                return V(dims=c.dims, term=sel(X, Y), leads=leads, red=red)
            return V(dims=c.dims, nan="whole", leads=leads, red=red,
                     term=f"(Option.bind {X} fun x => Option.map (fun y => {sel('x', 'y')}) {Y})")
        raise Untranslatable(f"{self.pyname}: `where` on {c.dims} / {x.dims},{x.nan} / {y.dims},{y.nan}")

    def divisor(self, e):
        src = ast.unparse(e)
        if isinstance(e, ast.Constant) and isinstance(e.value, (int, float)) and e.value != 0:
            return
        if src not in self.ctx.divisors:
            self.ctx.divisors.append(src)

    # ------------------------------------------------------------------------------------- expressions
    def ev(self, e):
        if isinstance(e, ast.Constant):
            if isinstance(e.value, bool):
                return V("bool", elem="true" if e.value else "false", lit=e.value)
            if isinstance(e.value, (int, float)):
                return V(elem=rat(e.value), lit=e.value)
            if isinstance(e.value, str):
                return V("str", lit=e.value)
            if e.value is None:
                return V("optrat", term="none", lit=None)
            raise Untranslatable(f"{self.pyname}: constant {e.value!r}")
        if isinstance(e, ast.Name):
            if e.id in self.env:
                return self.env[e.id]
            if e.id in ("pi", "g"):
                self.need(e.id)
                return V(elem=e.id, leads=(e.id,))
            if e.id == "R2D":
                self.need("R2D")
                from .translate_native import _module_const

                return V(elem=_module_const(UTILS_PY, "R2D"), leads=("pi",))
            raise Untranslatable(f"{self.pyname}: unknown name {e.id}")
        if isinstance(e, ast.UnaryOp) and isinstance(e.op, ast.USub):
            v = self.map1(self.ev(e.operand), lambda x: f"(-{x})")
            return v
        if isinstance(e, ast.BinOp):
            return self.binop(e)
        if isinstance(e, ast.Compare) and len(e.ops) == 1 and type(e.ops[0]) in CMP:
            op = CMP[type(e.ops[0])]
            return self.combine(self.ev(e.left), self.ev(e.comparators[0]), lambda x, y: f"({x} {op} {y})", kind="prop")
        if isinstance(e, ast.Attribute):
            if e.attr == "size":
                v = self.ev(e.value)
                if v.kind == "num" and v.dims in ((F,), (D,)) and v.nan is None and v.term is not None:
                    return V(term=f"((({v.term}).length : Nat) : Rat)", leads=v.leads)
            raise Untranslatable(f"{self.pyname}: attribute {ast.unparse(e)}")
        if isinstance(e, ast.Subscript):
            if ast.unparse(e.value) == "globals()" and isinstance(e.slice, ast.Name):
                s = self.env.get(e.slice.id)
                if s is None or s.kind != "str" or not isinstance(s.lit, str):
                    raise Untranslatable(f"{self.pyname}: globals()[{e.slice.id}] with an unknown string")
                if self.bind.get(s.lit) != "def" or s.lit not in SPECS or SPECS[s.lit][0] != self.path:
                    raise Untranslatable(f"{self.pyname}: globals()['{s.lit}'] is not a function of the grammar")
                return V("func", data=s.lit)
            raise Untranslatable(f"{self.pyname}: subscript {ast.unparse(e)}")
        if isinstance(e, ast.Call):
            return self.call(e)
        raise Untranslatable(f"{self.pyname}: expression {ast.unparse(e)[:80]}")

    def binop(self, e):
        if isinstance(e.op, ast.Pow):
            n = _lit_int(e.right)
            if n is None:
                return self.table(e)
            a = self.ev(e.left)
            if n >= 0:
                return self.map1(a, lambda x: f"({x} ^ {n})")
            self.divisor(ast.parse(f"({ast.unparse(e.left)}) ** {-n}", mode="eval").body)
            return self.map1(a, lambda x: f"((1 : Rat) / ({x} ^ {-n}))")
        if isinstance(e.op, ast.Mod):
            a, b = self.ev(e.left), self.ev(e.right)
            if a.elem is None or b.elem is None:
                raise Untranslatable(f"{self.pyname}: `%` on a value without scalar form")
            return self.combine(a, b, lambda x, y: f"(WS.pmod {x} {y})")
        if type(e.op) not in ARITH:
            raise Untranslatable(f"{self.pyname}: operator {type(e.op).__name__}")
        op = ARITH[type(e.op)]
        a, b = self.ev(e.left), self.ev(e.right)
        if op == "/":
            if b.red:
                if b.kind != "num" or b.nan is not None or a.nan is not None or a.dims != ():
                    raise Untranslatable(f"{self.pyname}: guarded division {ast.unparse(e)[:60]}")
                A, B = self.mat(a), self.mat(b)
                if b.dims == ():
                    return V(term=f"(WS.divOpt {A} {B})", nan="whole", red=True, leads=a.leads | b.leads)
                if b.dims == (F,):
                    return V(dims=(F,), term=f"(List.map (fun t => WS.divOpt {A} t) {B})", nan="row", red=True, leads=a.leads | b.leads)
                raise Untranslatable(f"{self.pyname}: guarded division by an array over {b.dims}")
            self.divisor(e.right)
        return self.combine(a, b, lambda x, y: f"({x} {op} {y})")

    # ---- oracle tables
    def chain(self, e, args):
        fn = _fname(e)
        if fn in TRANS and len(e.args) == 1 and not e.keywords:
            self.need("np")
            return f"{fn}({self.chain(e.args[0], args)})"
        if isinstance(e, ast.BinOp) and isinstance(e.op, ast.Pow) and _lit_int(e.right) is None:
            return f"{self.chain(e.left, args)} ** {self.chain(e.right, args)}"
        v = self.ev(e)
        if v.kind != "num" or v.elem is None or v.nan is not None:
            raise Untranslatable(f"{self.pyname}: argument `{ast.unparse(e)[:60]}` of a transcendental has no scalar form")
        args.append((ast.unparse(e), v))
        return f"·{len(args) - 1}"

    def table(self, e):
        args = []
        chain = self.chain(e, args)
        dims = _dims(*[v.dims for _, v in args])
        leads = frozenset().union(*[v.leads for _, v in args])
        if chain == "np.sqrt(·0)" and dims == ():
            return V(elem=f"(sqrt {args[0][1].elem})", leads=leads | {"sqrt"}, red=args[0][1].red)
        base = "pw" if isinstance(e, ast.BinOp) else TRANS[_fname(e)]
        name = self.ctx.table_name(base)
        self.ctx.tables.append(Table(name, dims, chain, [(s, v.elem, v.leads) for s, v in args], leads))
        return V(dims=dims, term=name)

    # ---- calls
    def call(self, e):
        fn = _fname(e)
        kw = {k.arg: k.value for k in e.keywords}
        if fn.startswith("np.") or fn.startswith("xr."):
            self.need(fn[:2])
        if fn in TRANS and len(e.args) == 1 and not kw:
            return self.table(e)
        if fn in ("np.abs", "np.absolute", "abs") and len(e.args) == 1 and not kw:
            return self.map1(self.ev(e.args[0]), lambda x: f"(WS.absR {x})")
        if fn == "np.deg2rad" and len(e.args) == 1 and not kw:
            v = self.map1(self.ev(e.args[0]), lambda x: f"({x} * (pi / (180 : Rat)))")
            v.leads |= {"pi"}
            return v
        if fn in ("np.maximum", "np.minimum") and len(e.args) == 2 and not kw:
            w = "WS.maxR" if fn == "np.maximum" else "WS.minR"
            return self.combine(self.ev(e.args[0]), self.ev(e.args[1]), lambda x, y: f"({w} {x} {y})")
        if fn in ("xr.where", "np.where") and len(e.args) == 3 and not kw:
            return self.where3(self.ev(e.args[0]), self.ev(e.args[1]), self.ev(e.args[2]))
        if isinstance(e.func, ast.Attribute):
            at = e.func.attr
            if at == "where" and len(e.args) == 2 and not kw and fn not in ("xr.where", "np.where"):
                return self.where3(self.ev(e.args[0]), self.ev(e.func.value), self.ev(e.args[1]))
            if at == "sum" and ((len(e.args) == 1 and not kw and _is_dirname(e.args[0]))
                                or (not e.args and set(kw) == {"dim"} and _is_dirname(kw["dim"]))):
                self.need("attrs")
                x = self.ev(e.func.value)
                if x.kind == "num" and x.nan is None and D in x.dims:
                    X = self.mat(x)
                    if x.dims == (D,):
                        return V(term=f"(List.sum {X})", red=True, leads=x.leads)
                    return V(dims=(F,), term=f"(List.map List.sum {X})", red=True, leads=x.leads)
                raise Untranslatable(f"{self.pyname}: sum over dir of {x.dims}/{x.nan}")
            if at == "fillna" and len(e.args) == 1 and not kw:
                x, fill = self.ev(e.func.value), self.ev(e.args[0])
                if fill.elem is None or fill.dims != () or fill.kind != "num":
                    raise Untranslatable(f"{self.pyname}: fillna value")
                if x.kind == "num" and x.nan == "row" and x.dims == (F, D):
                    return V(dims=(F, D), leads=x.leads | {"nd"}, red=x.red,
                             term=f"(List.map (fun r => match r with | some row => row | none => List.replicate nd {fill.elem}) {self.mat(x)})")
                raise Untranslatable(f"{self.pyname}: fillna on {x.dims}/{x.nan}")
            if at == "hs" and not e.args and not kw and isinstance(e.func.value, ast.Attribute) and e.func.value.attr == "spec":
                x = self.ev(e.func.value.value)
                fq = self.ctx.coord.get(F)
                if x.kind == "num" and x.dims == (F,) and x.nan is None and fq is not None:
                    return V(term=f"(xrHs sqrt {fq} [] (List.map (fun t => [t]) {self.mat(x)}) (xrDf {fq}) (1 : Rat) xrHs_tail_default)",
                             red=True, leads=x.leads | {"sqrt"})
                raise Untranslatable(f"{self.pyname}: .spec.hs() of {x.dims}/{x.nan}")
        if fn == "wavenuma" and len(e.args) == 2 and not kw:
            self.need("wavenuma")
            a, b = self.ev(e.args[0]), self.ev(e.args[1])
            r = self.combine(a, b, lambda x, y: f"(wavenuma pi sqrt {x} {y})")
            if r.elem is None:
                raise Untranslatable(f"{self.pyname}: wavenuma of values without scalar form")
            r.leads |= {"pi", "sqrt"}
            self.divisor(e.args[1])
            return r
        if fn == "load_function" and len(e.args) == 2 and not kw and isinstance(e.args[0], ast.Constant) \
                and isinstance(e.args[1], ast.Name) and self.env.get(e.args[1].id, V()).kind == "str":
            self.need("load_function")
            return V("dynfunc", data=(e.args[0].value, e.args[1].id))
        if isinstance(e.func, ast.Name):
            tgt = self.env.get(e.func.id)
            if tgt is not None and tgt.kind == "func":
                return self.kernel_call(tgt.data, e)
            if tgt is None and e.func.id in SPECS:
                path = SPECS[e.func.id][0]
                if path == self.path:
                    if self.bind.get(e.func.id) != "def":
                        raise Untranslatable(f"{self.pyname}: `{e.func.id}` is not the function defined in this module")
                else:
                    self.need(e.func.id)
                return self.kernel_call(e.func.id, e)
        raise Untranslatable(f"{self.pyname}: call {ast.unparse(e)[:80]}")

    def default_value(self, pyname, p, node):
        lean = SPECS[pyname][1]
        if isinstance(node, ast.Constant):
            c = node.value
            if c is None:
                return V("optrat", term="none", lit=None)
            if isinstance(c, bool):
                return V("bool", elem=f"{lean}_{p}_default", lit=c)
            if isinstance(c, (int, float)):
                return V(elem=f"{lean}_{p}_default", lit=c)
            if isinstance(c, str):
                return V("str", lit=c)
        raise Untranslatable(f"{pyname}: default of {p}")

    def kernel_call(self, pyname, e):
        path = SPECS[pyname][0]
        fn = find_func(path, pyname)
        fa = fn.args
        if fa.vararg or fa.kwonlyargs or fa.posonlyargs or fn.decorator_list:
            raise Untranslatable(f"{pyname}: signature")
        names = [a.arg for a in fa.args]
        defaults = dict(zip(names[len(names) - len(fa.defaults):], fa.defaults))
        given = {}
        if len(e.args) > len(names):
            raise Untranslatable(f"{self.pyname}: too many positional arguments in {ast.unparse(e)[:60]}")
        for n, a in zip(names, e.args):
            if isinstance(a, ast.Starred):
                raise Untranslatable(f"{self.pyname}: starred argument")
            given[n] = self.ev(a)
        for k in e.keywords:
            if k.arg is None:
                d = self.ev(k.value)
                if d.kind != "args":
                    raise Untranslatable(f"{self.pyname}: `**{ast.unparse(k.value)}` is not the dictionary of all arguments")
                for n, v in d.data.items():
                    if n in given:
                        raise Untranslatable(f"{self.pyname}: argument {n} given twice")
                    if n in names:
                        given[n] = v
                    elif fa.kwarg is None:
                        raise Untranslatable(f"{self.pyname}: {pyname}() got an unexpected keyword {n}")
                continue
            if k.arg in given:
                raise Untranslatable(f"{self.pyname}: argument {k.arg} given twice")
            if k.arg in names:
                given[k.arg] = self.ev(k.value)
            elif fa.kwarg is None:
                raise Untranslatable(f"{self.pyname}: {pyname}() got an unexpected keyword {k.arg}")
        types, env, actual_terms, binds = {}, {}, {}, []
        for n in names:
            if n in given:
                v = given[n]
            elif n in defaults:
                v = self.default_value(pyname, n, defaults[n])
            else:
                raise Untranslatable(f"{self.pyname}: call of {pyname} misses argument {n}")
            optional = n in defaults and isinstance(defaults[n], ast.Constant) and defaults[n].value is None
            if optional:
                if v.kind == "optrat":
                    types[n], actual_terms[n] = OPTRAT, v.term
                elif v.kind == "num" and v.dims == () and v.nan is None:
                    types[n], actual_terms[n] = OPTRAT, f"(some {self.mat(v)})"
                else:
                    raise Untranslatable(f"{self.pyname}: optional argument {n} of {pyname} given a {v.kind} over {v.dims}")
                env[n] = V("optrat", term=n)
            elif v.kind == "num":
                if v.nan == "whole":
                    var = f"{n}_"
                    binds.append((self.mat(v), var))
                    actual_terms[n] = var
                elif v.nan is None:
                    actual_terms[n] = self.mat(v)
                else:
                    raise Untranslatable(f"{self.pyname}: argument {n} of {pyname} with per-row NaN")
                types[n] = P(dims=v.dims)
                env[n] = V(dims=v.dims, elem=v.elem, term=n, fb=v.fb, db=v.db, leads=v.leads, red=v.red)
            elif v.kind == "prop" and v.nan is None and v.dims:
                types[n], actual_terms[n] = P("prop", v.dims), self.mat(v)
                env[n] = V("prop", v.dims, elem=v.elem, term=n, fb=v.fb, db=v.db, leads=v.leads)
            elif v.kind == "bool":
                types[n], actual_terms[n] = BOOL, v.elem
                env[n] = V("bool", elem=n)
            elif v.kind == "str":
                types[n] = STR
                env[n] = V("str", lit=v.lit)
            else:
                raise Untranslatable(f"{self.pyname}: argument {n} of {pyname} of kind {v.kind}")
        # inline interpretation: result type, tables and their argument functions in the caller's terms
        sub_ctx = Ctx(self.ctx.lean)
        for ax in (F, D):
            co = [n for n in names if n == ax and types[n] == P(dims=(ax,))]
            if co:
                sub_ctx.coord[ax] = co[0]
            elif ax in SPECS[pyname][4]:
                sub_ctx.coord[ax] = ax
        sub = Interp(self.gen, sub_ctx, pyname, path, fn, env, "")
        sub.run(body_stmts(fn), 1)
        if sub.ret is None:
            raise Untranslatable(f"{pyname}: no return value")
        info = self.gen.ensure(pyname, types)
        if [t.ty() for t in sub_ctx.tables] != [t.ty() for t in info.tables]:
            raise Untranslatable(f"{pyname}: tables of the inline reading differ from the definition")
        tnames = []
        for t in sub_ctx.tables:
            nm = self.ctx.table_name(t.name)
            self.ctx.tables.append(Table(nm, t.dims, t.chain, t.args, t.leads))
            tnames.append(nm)
        for d in sub_ctx.divisors:
            d = f"{pyname}: {d}" if ": " not in d else d
            if d not in self.ctx.divisors:
                self.ctx.divisors.append(d)
        parts = [info.lean] + list(info.leads)
        for ax in info.implicit:
            co = self.ctx.coord.get(ax)
            if co is None:
                raise Untranslatable(f"{self.pyname}: call of {pyname} without a {ax} coordinate in scope")
            parts.append(co)
        parts += [actual_terms[n] for n in info.params] + tnames
        term = "(" + " ".join(parts) + ")"
        ret = sub.ret
        nan = ret.nan
        if binds:
            if nan is None:
                term, nan = f"(some {term})", "whole"
            elif nan != "whole":
                raise Untranslatable(f"{self.pyname}: NaN argument to {pyname} returning per-row NaN")
            for (src, var) in reversed(binds):
                term = f"(Option.bind {src} fun {var} => {term})"
        leads = frozenset(info.leads) | frozenset().union(*[v.leads for v in given.values()]) if given else frozenset(info.leads)
        return V(ret.kind, ret.dims, term=term, nan=nan, red=ret.red, leads=leads)

    # ------------------------------------------------------------------------------------- statements
    def run(self, stmts, ind):
        for st in stmts:
            if self.ret is not None:
                raise Untranslatable(f"{self.pyname}: statement after return")
            self.stmt(st, ind)

    def plumb(self, st):
        self.ctx.plumbing.append(" ".join(ast.unparse(st).split()))

    def bind_var(self, name, v, ind):
        if name in RESERVED:
            raise Untranslatable(f"{self.pyname}: variable name {name}")
        if name in self.base_names:
            raise Untranslatable(f"{self.pyname}: re-assignment of the array argument {name}")
        if v.kind in ("num", "prop") and v.elem is None:
            self.emit(ind, f"let {name} := {self.mat(v)}")
            v = V(v.kind, v.dims, term=name, nan=v.nan, red=v.red, leads=v.leads)
        self.env[name] = v

    def stmt(self, st, ind):
        src = ast.unparse(st)
        if isinstance(st, ast.Expr):
            if isinstance(st.value, ast.Constant) and isinstance(st.value.value, str):
                return
            fn = _fname(st.value)
            if fn in ("check_same_coordinates", "set_spec_attributes"):
                self.need(fn)
                return self.plumb(st)
            if src == "arguments.update(arg_vals.locals['kwargs'])" and self.env.get("arguments", V()).kind == "args" \
                    and not self.env["arguments"].data.get("__kwargs__"):
                d = dict(self.env["arguments"].data)
                for n, v in self.env["__kwargs__"].data.items():
                    d[n] = v
                d["__kwargs__"] = True
                self.env["arguments"] = V("args", data=d)
                return self.plumb(st)
            raise Untranslatable(f"{self.pyname}: statement `{src[:80]}`")
        if isinstance(st, ast.Import):
            if src == "import inspect" and "inspect" not in self.env:
                return self.plumb(st)
            raise Untranslatable(f"{self.pyname}: statement `{src}`")
        if isinstance(st, ast.If):
            return self.if_stmt(st, ind)
        if isinstance(st, ast.Return):
            if st.value is None:
                raise Untranslatable(f"{self.pyname}: bare return")
            v = self.ev(st.value)
            if v.kind not in ("num", "prop"):
                raise Untranslatable(f"{self.pyname}: returns a value of kind {v.kind}")
            self.emit(ind, self.mat(v))
            self.ret = v
            return
        if isinstance(st, ast.Assign) and len(st.targets) == 1:
            t = st.targets[0]
            if isinstance(t, ast.Attribute) and t.attr == "name" and isinstance(t.value, ast.Name) and t.value.id in self.env \
                    and ast.unparse(st.value) == "attrs.SPECNAME":
                self.need("attrs")
                return self.plumb(st)
            if isinstance(t, ast.Tuple) and _fname(st.value) == "xr.broadcast":
                self.need("xr")
                names = [x.id for x in t.elts if isinstance(x, ast.Name)]
                args = [ast.unparse(a) for a in st.value.args]
                if names != args or len(names) != 2 or st.value.keywords:
                    raise Untranslatable(f"{self.pyname}: `{src}`")
                a, b = (self.env.get(n) for n in names)
                if a is None or b is None or a.kind != "num" or b.kind != "num" or a.dims != b.dims or a.nan or b.nan:
                    raise Untranslatable(f"{self.pyname}: xr.broadcast of arrays over different dimensions")
                return self.plumb(st)
            if isinstance(t, ast.Name):
                return self.assign(t.id, st, ind)
        raise Untranslatable(f"{self.pyname}: statement `{src[:80]}`")

    def assign(self, name, st, ind):
        val, src = st.value, " ".join(ast.unparse(st).split())
        # the idioms of `conditional`
        if src == "arg_vals = inspect.getargvalues(inspect.currentframe())":
            self.env[name] = V("frame")
            return self.plumb(st)
        if src == "arguments = {a: arg_vals.locals[a] for a in arg_vals.args}" and self.env.get("arg_vals", V()).kind == "frame":
            named = [a.arg for a in self.fn.args.args]
            self.env[name] = V("args", data={n: self.env[n] for n in named})
            return self.plumb(st)
        # a dynamically loaded function called with a dictionary of keyword arguments: the result is a parameter
        if isinstance(val, ast.Call) and isinstance(val.func, ast.Name) and self.env.get(val.func.id, V()).kind == "dynfunc":
            if val.args or len(val.keywords) != 1 or val.keywords[0].arg is not None or not isinstance(val.keywords[0].value, ast.Name) \
                    or self.env.get(val.keywords[0].value.id, V()).kind != "dict":
                raise Untranslatable(f"{self.pyname}: `{src}`")
            module, argname = self.env[val.func.id].data
            ty = DYN_RESULT[self.variant].get(module)
            if ty is None:
                raise Untranslatable(f"{self.pyname}: functions of module {module} have no declared result type")
            if name in RESERVED:
                raise Untranslatable(f"{self.pyname}: variable name {name}")
            v = V(ty[0], ty[1], term=name, nan=ty[2])
            self.ctx.extra_params.append((name, v))
            self.ctx.calls.append(f"{name} = load_function({module!r}, {argname})(**{val.keywords[0].value.id})")
            self.env[name] = v
            return
        v = self.ev(val)
        if v.kind in ("func", "dynfunc"):
            self.env[name] = v
            return
        if v.kind not in ("num", "prop"):
            raise Untranslatable(f"{self.pyname}: `{src[:80]}` assigns a value of kind {v.kind}")
        self.bind_var(name, v, ind)

    def if_stmt(self, st, ind):
        src = " ".join(ast.unparse(st).split())
        t = st.test
        # `if not isinstance(X, xr.DataArray): X = to_coords(X, "<axis>")`
        if isinstance(t, ast.UnaryOp) and isinstance(t.op, ast.Not) and _fname(t.operand) == "isinstance":
            ok = (not st.orelse and len(st.body) == 1 and isinstance(st.body[0], ast.Assign) and len(t.operand.args) == 2
                  and isinstance(t.operand.args[0], ast.Name) and ast.unparse(t.operand.args[1]) == "xr.DataArray")
            if ok:
                x = t.operand.args[0].id
                b = st.body[0]
                ok = (ast.unparse(b.targets[0]) == x and _fname(b.value) == "to_coords" and len(b.value.args) == 2
                      and ast.unparse(b.value.args[0]) == x and isinstance(b.value.args[1], ast.Constant)
                      and x in self.env and self.env[x].kind == "num" and self.env[x].dims == (b.value.args[1].value,)
                      and self.env[x].nan is None and self.bind.get("xr") == IMPORTS["xr"])
            if not ok:
                raise Untranslatable(f"{self.pyname}: `{src[:80]}`")
            self.need("to_coords")
            return self.plumb(st)
        if st.orelse:
            raise Untranslatable(f"{self.pyname}: if/else `{src[:60]}`")
        if isinstance(t, ast.Compare) and len(t.ops) == 1 and isinstance(t.ops[0], ast.IsNot) and isinstance(t.left, ast.Name) \
                and isinstance(t.comparators[0], ast.Constant) and t.comparators[0].value is None:
            name = t.left.id
            if self.env.get(name, V()).kind != "optrat" or self.env[name].term != name:
                raise Untranslatable(f"{self.pyname}: `{name} is not None` on a value that is not an optional argument")
            head = [f"(match {name} with", f"  | none => ", f"  | some {name} =>"]
            inner = V(elem=name)
        elif isinstance(t, ast.Name) and self.env.get(t.id, V()).kind == "bool":
            name = t.id
            head = [f"(if {self.env[name].elem} then", "else ", None]
            inner = self.env[name]
        else:
            raise Untranslatable(f"{self.pyname}: test `{ast.unparse(t)[:60]}`")
        old_env, saved = dict(self.env), self.lines
        self.lines = []
        self.env[name] = inner
        bi = ind + 6 if head[2] is not None else ind + 4
        self.run(st.body, bi)
        if self.ret is not None:
            raise Untranslatable(f"{self.pyname}: return inside if")
        body_lines, new_env = self.lines, self.env
        self.lines, self.env = saved, old_env
        changed = [k for k in new_env if k != name and new_env[k] is not old_env.get(k)]
        if len(changed) != 1 or changed[0] not in old_env:
            raise Untranslatable(f"{self.pyname}: `if` must re-assign exactly one existing variable (got {changed})")
        var = changed[0]
        old, new = old_env[var], new_env[var]
        if old.kind != "num" or new.kind != "num" or old.dims != new.dims:
            raise Untranslatable(f"{self.pyname}: branches of `if` give {old.dims} and {new.dims}")
        ot, nt = self.mat(old), self.mat(new)
        nan = old.nan
        if old.nan != new.nan:
            if old.nan is None and new.nan == "whole":
                ot, nan = f"(some {ot})", "whole"
            elif new.nan is None and old.nan == "whole":
                nt, nan = f"(some {nt})", "whole"
            else:
                raise Untranslatable(f"{self.pyname}: branches of `if` track NaN differently")
        self.emit(ind, f"let {var} :=")
        if head[2] is not None:      # match on an optional argument
            self.emit(ind + 2, head[0])
            self.emit(ind + 2, head[1] + ot)
            self.emit(ind + 2, head[2])
            self.lines += body_lines
            self.emit(bi, nt + ")")
        else:
            self.emit(ind + 2, head[0])
            self.lines += body_lines
            self.emit(ind + 4, nt)
            self.emit(ind + 2, "else " + ot + ")")
        self.env[var] = V(dims=old.dims, term=var, nan=nan, red=old.red or new.red, leads=old.leads | new.leads)


# ------------------------------------------------------------------------------------------------
# one generated definition
# ------------------------------------------------------------------------------------------------
import re

_TOKEN = re.compile(r"[A-Za-z_][A-Za-z_0-9.']*")


def _leads_in(text):
    toks = set(_TOKEN.findall(text))
    return [l for l in LEADS if l in toks]


def _lead_params(leads):
    return "".join(f"({l} : {LEAD_TY[l]}) " for l in leads)


def _strlist(xs):
    return "[" + ", ".join(lean_str(x) for x in xs) + "]"


class Root:
    def __init__(self, gen, pyname, types, variant=""):
        self.gen, self.pyname, self.types, self.variant = gen, pyname, dict(types), variant

    def build(self):
        pyname = self.pyname
        path, base, primary, kwargs, implicit = SPECS[pyname]
        fn = find_func(path, pyname)
        fa = fn.args
        if fa.vararg or fa.kwonlyargs or fa.posonlyargs or fn.decorator_list:
            raise Untranslatable(f"{pyname}: signature / decorators")
        if module_bindings(path).get(pyname) != "def":
            raise Untranslatable(f"{pyname}: not defined exactly once at module level of {path}")
        names = [a.arg for a in fa.args]
        if names != list(primary):
            raise Untranslatable(f"{pyname}: signature {names} (expected {list(primary)})")
        if kwargs and (fa.kwarg is None or fa.kwarg.arg != "kwargs"):
            raise Untranslatable(f"{pyname}: no **kwargs")
        for n in names + list(kwargs):
            if n in RESERVED:
                raise Untranslatable(f"{pyname}: argument name {n}")
        types = self.types
        if types == primary:
            suffix = ""
        elif all(types[n] == primary[n] or (primary[n] == RAT and types[n] == VF) for n in names):
            suffix = "F"
        else:
            raise Untranslatable(f"{pyname}: called with argument types outside the parameter set: {types}")
        lean = base + suffix + self.variant
        defaults = dict(zip(names[len(names) - len(fa.defaults):], fa.defaults))
        for n, dv in defaults.items():
            isnone = isinstance(dv, ast.Constant) and dv.value is None
            if (primary[n] == OPTRAT) != isnone:
                raise Untranslatable(f"{pyname}: default of {n} is {ast.unparse(dv)}")
        ctx = Ctx(lean)
        env = {}
        for n in names:
            kind, dims, nan = types[n]
            if kind == "num" and dims == ():
                env[n] = V(elem=n)
            elif kind in ("num", "prop") and dims in ((F,), (D,)):
                el = n if kind == "num" else None
                env[n] = V(kind, dims, elem=el, term=n, fb=(n,) if dims == (F,) else (), db=(n,) if dims == (D,) else ())
                if n == dims[0] and kind == "num":
                    ctx.coord[dims[0]] = n
            elif kind == "optrat":
                env[n] = V("optrat", term=n)
            elif kind == "bool":
                env[n] = V("bool", elem=n)
            elif kind == "str":
                if n not in defaults or not isinstance(defaults[n], ast.Constant) or not isinstance(defaults[n].value, str):
                    raise Untranslatable(f"{pyname}: string argument {n} without a literal default")
                env[n] = V("str", lit=defaults[n].value)
            elif kind == "dict":
                env[n] = V("dict")
            else:
                raise Untranslatable(f"{pyname}: argument {n} of type {types[n]}")
        for ax in implicit:
            if ax not in ctx.coord:
                ctx.coord[ax] = ax
                if ax in env:
                    raise Untranslatable(f"{pyname}: argument {ax} hides the implicit coordinate")
        if kwargs:
            env["__kwargs__"] = V("args", data={k: V(elem=k) for k in kwargs})
        it = Interp(self.gen, ctx, pyname, path, fn, env, self.variant)
        it.run(body_stmts(fn), 1)
        if it.ret is None:
            raise Untranslatable(f"{pyname}: no return value")
        body = "\n".join("  " * ind + text for ind, text in it.lines)
        lean_params = [n for n in names if types[n][0] in ("num", "prop", "optrat", "bool")]
        numeric = [n for n in names if types[n][0] == "num"] + list(kwargs)
        imp = [ax for ax in implicit if ax not in names]
        leads = _leads_in(body)
        sig = []
        for ax in imp:
            sig.append(f"({ax} : List Rat)")
        for n in lean_params:
            sig.append(f"({n} : {lean_ty(V(*types[n][:2], nan=types[n][2]))})")
        for k in kwargs:
            sig.append(f"({k} : Rat)")
        for n, v in ctx.extra_params:
            sig.append(f"({n} : {lean_ty(v)})")
        for t in ctx.tables:
            sig.append(f"({t.name} : {t.ty()})")
        out = [f"/-- signature of `{pyname}` -/\ndef {lean}_sig : String := {lean_str(ast.unparse(fa))}\n"]
        if not suffix and not self.variant or (pyname, "defaults") not in self.gen.status:
            self.gen.status[(pyname, "defaults")] = True
            for n, dv in defaults.items():
                c = dv.value if isinstance(dv, ast.Constant) else Ellipsis
                if c is None:
                    out.append(f"def {base}_{n}_default : Option Rat := none\n")
                elif isinstance(c, bool):
                    out.append(f"def {base}_{n}_default : Bool := {'true' if c else 'false'}\n")
                elif isinstance(c, (int, float)):
                    out.append(f"def {base}_{n}_default : Rat := {rat(c)}\n")
                elif isinstance(c, str):
                    out.append(f"def {base}_{n}_default : String := {lean_str(c)}\n")
                elif primary[n][0] == "dict":
                    out.append(f"def {base}_{n}_default : String := {lean_str(ast.unparse(dv))}\n")
                else:
                    raise Untranslatable(f"{pyname}: default of {n} is {ast.unparse(dv)}")
        out.append(f"/-- statements of `{pyname}` that are not translated (xarray plumbing), as source text -/\n"
                   f"def {lean}_plumbing : List String := {_strlist(ctx.plumbing)}\n")
        out.append(f"/-- divisors of `{pyname}` divided by with total rational division (numpy: inf/nan where they vanish) -/\n"
                   f"def {lean}_divisors : List String := {_strlist(ctx.divisors)}\n")
        if ctx.calls:
            out.append(f"/-- dynamic calls of `{pyname}` whose results are parameters of the generated definition -/\n"
                       f"def {lean}_calls : List String := {_strlist(ctx.calls)}\n")
        for t in ctx.tables:
            out.append(f"def {lean}_{t.name}_fn : String := {lean_str(t.chain)}\n")
            for k, (src, elem, _) in enumerate(t.args):
                al = [l for l in _leads_in(elem) if l != "nd"]
                out.append(f"/-- `{src}` -/\ndef {lean}_{t.name}_arg{k} {_lead_params(al)}({' '.join(numeric)} : Rat) : Rat :=\n  {elem}\n")
        tdoc = "; ".join(f"`{t.name}` = oracle table `{t.chain}`" for t in ctx.tables)
        doc = f"`{pyname}`" + (f" ({'per-frequency parameters' if suffix else 'variant ' + self.variant})" if suffix or self.variant else "") \
            + (f"; {tdoc}" if tdoc else "")
        ret_ty = lean_ty(it.ret)
        out.append(f"/-- {doc} -/\ndef {lean} {_lead_params(leads)}{' '.join(sig)} : {ret_ty} :=\n{body}\n")
        return DefInfo(lean, leads, imp, lean_params + list(kwargs), ctx.tables, it.ret, "\n".join(out))


ROOTS = [("scaled", ""), ("pierson_moskowitz", ""), ("jonswap", ""), ("tma", ""), ("gaussian", ""), ("conditional", ""),
         ("cartwright", ""), ("asymmetric", ""), ("construct_partition", ""), ("construct_partition", "D")]

HEADER = """import WsVerif.Gen.Prelude
import WsVerif.Gen.NpKernels
import WsVerif.Gen.XrKernels
/-! GENERATED by harness/translate_con.py from wavespectra/construct/{frequency,direction,__init__}.py and
    core/utils.py (`scaled`) — do not edit.  Bridged to `Model/Construct.lean` / `Model/ConstructArgs.lean` in
    Props/C15con.lean (`gencon_*`). -/
set_option linter.unusedVariables false
namespace WS.Gen
"""


def generate_con(gen_dir):
    gen = Gen()
    status = {}
    failed = []
    for pyname, variant in ROOTS:
        key = "con_" + pyname + (("_" + variant) if variant else "")
        try:
            gen.ensure(pyname, SPECS[pyname][2], variant)
            status[key] = "ok"
        except Untranslatable as e:
            status[key] = f"untranslatable: {e}"
            failed.append((key, str(e)))
        except Exception as e:  # a crash of the translator is a broken tie as well, never a silent skip
            status[key] = f"untranslatable: {type(e).__name__}: {e}"
            failed.append((key, f"{type(e).__name__}: {e}"))
    # functions of the two shape modules that are outside the specification must not go unnoticed
    for path in (FREQ_PY, DIR_PY):
        for st in _module(path).body:
            if isinstance(st, ast.FunctionDef) and st.name not in SPECS:
                key = f"con_{st.name}"
                status[key] = f"untranslatable: {path}:{st.name} is not in the specification of the constructor grammar"
                failed.append((key, status[key]))
    text = HEADER + "\n".join(gen.order)
    for key, msg in failed:
        text += f"-- {key}: untranslatable: {msg}\n"
    text += "def conUntranslatable : List String := " + _strlist([k for k, _ in failed]) + "\n"
    text += "end WS.Gen\n"
    write_if_changed(gen_dir / "ConKernels.lean", text)
    return status

"""Pure-Python reference transliteration of the UNMODIFIED specpart.c (partition / ptsort / pt_fld), validated bin-for-bin
against the real extension on 10 000 random grids at design time (floats and integers, ihmax in {1,2,3,5,100}).

Used only to make known-finding triggers precise: a label-0 bin is the known 'thick watershed' finding exactly when the
unmodified algorithm also leaves it 0 for the same float32 input."""
import numpy as np

INIT, MASK, WSHED = -1, -2, 0


def neigh_table(mk,mth):
    nspec=mk*mth; T=[]
    for n in range(nspec):
        j=n//mk; i=n-j*mk; r=[]
        if i!=0: r.append(n-1)
        if i!=mk-1: r.append(n+1)
        if j!=0: r.append(n-mk)
        if j==0: r.append(nspec-(mk-i))
        if j!=mth-1: r.append(n+mk)
        if j==mth-1: r.append(n-(mth-1)*mk)
        if i!=0 and j!=0: r.append(n-mk-1)
        if i!=0 and j==0: r.append(n-1+mk*(mth-1))
        if i!=mk-1 and j!=0: r.append(n-mk+1)
        if i!=mk-1 and j==0: r.append(n+1+mk*(mth-1))
        if i!=0 and j!=mth-1: r.append(n+mk-1)
        if i!=0 and j==mth-1: r.append(n-1-mk*(mth-1))
        if i!=mk-1 and j!=mth-1: r.append(n+mk+1)
        if i!=mk-1 and j==mth-1: r.append(n+1-mk*(mth-1))
        T.append(r)
    return T

def c_round(x): return np.floor(abs(x)+0.5)*np.sign(x)

def partition_py(spec, ihmax, trace=None):
    trace = [] if trace is None else trace
    nk,nth=spec.shape; mk,mth=nk,nth; nspec=nk*nth
    zp=np.zeros(nspec,dtype=np.float32)
    for iang in range(mth):
        for ifreq in range(mk):
            zp[ifreq+mk*iang]=np.float32(spec[ifreq,iang])
    zmin=float(zp.min()); zmax=float(zp.max())
    if zmax-zmin<1e-9: return np.zeros((nk,nth),int),None
    zp=(np.float64(zmax)-zp.astype(np.float64)).astype(np.float32)
    fact=(ihmax-1.0)/(zmax-zmin)
    imi=[int(max(0,min(ihmax-1,c_round(float(z)*fact)))) for z in zp]
    # ptsort
    numv=[0]*ihmax
    for v in imi: numv[v]+=1
    iaddr=[0]*ihmax
    for i in range(ihmax-1): iaddr[i+1]=iaddr[i]+numv[i]
    ind=[0]*nspec
    for i in range(nspec):
        iv=imi[i]; ind[iaddr[iv]]=i; iaddr[iv]+=1
    N=neigh_table(mk,mth)
    imo=[INIT]*nspec; imd=[0]*nspec; ic_label=0; FICT=-100
    iq=[None]*nspec; st=[0,0]  # start,end
    def add(v):
        iq[st[1]]=v
        st[1]= 0 if st[1]>nspec-2 else st[1]+1
    def first():
        v=iq[st[0]]; st[0]+=1
        if st[0]>nspec-1: st[0]=0
        return v
    def empty(): return st[0]==st[1]
    zpmax=float(zp.max())
    m=0
    for ih in range(ihmax):
        msave=m
        trace.append(("level",ih))
        while True:
            ip=ind[m]
            if imi[ip]!=ih: break
            imo[ip]=MASK; trace.append(("mark",ip))
            for ipp in N[ip]:
                if imo[ipp]>0 or imo[ipp]==WSHED:
                    imd[ip]=1; add(ip); break
            if m>nspec-2: break
            m+=1
        ic_dist=1; add(FICT)
        cur=None
        while True:
            ip=first()
            if ip==FICT:
                if empty(): break
                add(FICT); ic_dist+=1; ip=first()
            if cur is not None: trace.append(("finalize",cur))
            cur=ip
            for ipp in N[ip]:
                if imd[ipp]<ic_dist and (imo[ipp]>0 or imo[ipp]==WSHED):
                    if imo[ipp]>0:
                        if imo[ip]==MASK or imo[ip]==WSHED:
                            imo[ip]=imo[ipp]; trace.append(("inherit",ip,ipp))
                        elif imo[ip]!=imo[ipp]:
                            imo[ip]=WSHED; trace.append(("conflict",ip))
                    elif imo[ip]==MASK:
                        imo[ip]=WSHED; trace.append(("conflict",ip))
                elif imo[ipp]==MASK and imd[ipp]==0:
                    imd[ipp]=ic_dist+1; add(ipp)
        if cur is not None: trace.append(("finalize",cur))
        m=msave
        while True:
            ip=ind[m]
            if imi[ip]!=ih: break
            imd[ip]=0
            if imo[ip]==MASK:
                ic_label+=1; add(ip); imo[ip]=ic_label; trace.append(("seed",ip,ic_label))
                while True:
                    if empty(): break
                    ipp=first()
                    for ippp in N[ipp]:
                        if imo[ippp]==MASK:
                            add(ippp); imo[ippp]=ic_label; trace.append(("flood",ippp,ipp))
            if m>nspec-2: break
            m+=1
        trace.append(("endlevel",ih))
    for j in range(5):
        imd=list(imo)
        trace.append(("sweep",j))
        for jl in range(nspec):
            ipt=-1
            if imo[jl]==0:
                ep1=np.float32(zpmax)
                for jn,q in enumerate(N[jl]):
                    diff=np.float32(abs(np.float64(zp[jl])-np.float64(zp[q])))
                    if diff<=ep1 and imo[q]!=0:
                        ep1=diff; ipt=jn
                if ipt>-1:
                    imd[jl]=imo[N[jl][ipt]]; trace.append(("resolve",jl,N[jl][ipt]))
        imo=list(imd)
        if min(imo)>0: break
    out=np.zeros((nk,nth),int)
    for iang in range(mth):
        for ifreq in range(mk):
            out[ifreq,iang]=imo[ifreq+mk*iang]
    return out,(imi,N)


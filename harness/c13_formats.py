"""Independent reference ENCODERS of the instrument file formats of C13 (DESIGN §3 C13).

Nothing here imports wavespectra.  Each encoder takes plain numbers ("content") and writes the file(s)
the way the instrument / model writes them; it returns the content *as the file says it* (every value
rounded to the printing precision of the format, by re-reading the token it printed with `float()`),
so that the check compares the reader with what is in the file, not with what was meant to be there.
Layouts were taken from the format descriptions and from /repo/tests/sample_files (validated in the
check: a sample file parsed by the reader, re-encoded here and parsed again must give the same dataset).
"""
import datetime as dt
import gzip
import json
import math
import struct
from pathlib import Path

EPOCH = dt.datetime(1970, 1, 1)


def q(fmt, x):
    """(token, value the token denotes)"""
    s = fmt % x
    return s, float(s)


def fortran_e(x, nd=3, width=None):
    """Fortran `Ew.d` style: 0.ddddE+ee"""
    if x == 0:
        s = "0." + "0" * nd + "E+00"
    else:
        e = int(math.floor(math.log10(abs(x)))) + 1
        m = abs(x) / 10.0 ** e
        ms = f"{m:.{nd}f}"
        if ms.startswith("1."):  # rounding carried
            m /= 10.0
            e += 1
            ms = f"{m:.{nd}f}"
        s = ("-" if x < 0 else "") + ms + f"E{e:+03d}"
    if width:
        s = s.rjust(width)
    return s


def secs(t):
    return int((t - EPOCH).total_seconds())


# ------------------------------------------------------------------------------------------------
# TRIAXYS
# ------------------------------------------------------------------------------------------------
def enc_triaxys(path, rec, prec="%12.5E"):
    """rec: dict(time, directional, f0, df, nf, ddir, values[nf][ncol] or values[nf], title, sep, tzlabel).
    Returns the record as the file says it."""
    t = rec["time"]
    title = rec.get("title", "TRIAXYS BUOY DATA REPORT")
    f0s, f0 = q("%7.3f", rec["f0"])
    dfs, df = q("%7.3f", rec["df"])
    nf = rec["nf"]
    lines = [f"{title} - TAS01970 - TAB01401 - 4857.6668S16631.6837W"]
    out = dict(time=t, f0=f0, df=df, nf=nf, directional=rec["directional"])
    sep = rec.get("sep", " ")
    if rec["directional"]:
        ddir = rec["ddir"]
        dds = ("%8d" % ddir) if float(ddir).is_integer() else ("%8.2f" % ddir)
        out["ddir"] = float(dds)
        ncol = int(round(360.0 / ddir)) + 1
        lines += ["VERSION = WV (NDS)", "TYPE\t= DIRECTIONAL SPECTRUM",
                  "DATE    = %s(%s)" % (t.strftime("%Y-%m-%d %H:%M"), rec.get("tzlabel", "UTC")),
                  "NUMBER OF FREQUENCIES              = %7d" % nf,
                  "NUMBER OF RESOLVABLE FREQUENCIES   = %7d" % max(1, nf // 2),
                  "INITIAL FREQUENCY (Hz)             = " + f0s,
                  "FREQUENCY SPACING (Hz)             = " + dfs,
                  "RESOLVABLE FREQUENCY RANGE (Hz)    = %7.3f  TO %6.3f" % (f0 + df, f0 + df * (nf - 1)),
                  "NUMBER OF DIRECTIONS               = %7d" % ncol,
                  "DIRECTION SPACING (DEG)            = " + dds,
                  "COLUMNS = 0.00 TO 360.00 DEG",
                  "ROWS\t= %.2f TO %6.2f Hz" % (f0, f0 + df * (nf - 1))]
        vals = []
        for row in rec["values"]:
            assert len(row) == ncol
            toks = [q(prec, v) for v in row]
            if sep == " ":
                lines.append("".join(" " + tk[0].strip() for tk in toks))
            else:
                lines.append(sep.join(tk[0].strip() for tk in toks))
            vals.append([tk[1] for tk in toks])
        out["values"] = vals
    else:
        lines += ["VERSION = WV", "TYPE    = NON-DIRECTIONAL SPECTRUM",
                  "DATE    = %s(%s)" % (t.strftime("%Y-%m-%d %H:%M"), rec.get("tzlabel", "UTC")),
                  "NUMBER OF FREQUENCIES              = %4d" % nf,
                  "INITIAL FREQUENCY (Hz)             = " + f0s,
                  "FREQUENCY SPACING (Hz)             = " + dfs,
                  "COLUMN 1 = FREQUENCY (Hz)", "COLUMN 2 = SPECTRAL DENSITY (M^2/Hz)"]
        vals = []
        for i, v in enumerate(rec["values"]):
            tk = q("%.7E", v)
            lines.append("%.3f  %s" % (f0 + i * df, tk[0]))
            vals.append(tk[1])
        out["values"] = vals
    Path(path).write_text("\n".join(lines) + "\n")
    return out


# ------------------------------------------------------------------------------------------------
# NDBC ASCII
# ------------------------------------------------------------------------------------------------
NDBC_KINDS = ["spec", "swdir", "swdir2", "swr1", "swr2"]


def enc_ndbc(dirpath, station, variant, times, freqs, comps, sepfreq=None, gz=False, r_scaled=True, full=False):
    """variant: realtime | history | history_old.  comps: dict kind -> [nt][nf] values for the kinds present
    (`spec` alone for a 1-D file).  Returns (paths in reader order, content as the file says it).

    History files carry r1, r2 in hundredths ("the R1 and R2 values in the monthly and yearly historical data
    files are scaled by 100", NDBC measurement descriptions) when `r_scaled`."""
    dirpath = Path(dirpath)
    said = dict(times=list(times), comps={})
    paths = []
    if variant == "realtime":
        ftoks = [q("%.3f", f) for f in freqs]
    elif variant == "history":
        ftoks = [(("%.4f" % f).lstrip("0"), float("%.4f" % f)) for f in freqs]
    else:
        ftoks = [(("%.3f" % f).lstrip("0"), float("%.3f" % f)) for f in freqs]
    said["freqs"] = [t[1] for t in ftoks]
    suffix_rt = {"spec": "data_spec", "swdir": "swdir", "swdir2": "swdir2", "swr1": "swr1", "swr2": "swr2"}
    letter = {"spec": "w", "swdir": "d", "swdir2": "i", "swr1": "j", "swr2": "k"}
    names_rt = {"spec": "spec", "swdir": "alpha1", "swdir2": "alpha2", "swr1": "r1", "swr2": "r2"}
    for kind in NDBC_KINDS:
        if kind not in comps:
            continue
        vals = comps[kind]
        said_vals = []
        lines = []
        if variant == "realtime":
            head = "#YY  MM DD hh mm " + ("Sep_Freq  < " if kind == "spec" else "")
            head += " ".join(f"{names_rt[kind]}_{k} (freq_{k})" for k in (1, 2, 3)) + " ... >"
            lines.append(head)
            for it, t in enumerate(times):
                row = []
                toks = [t.strftime("%Y %m %d %H %M")]
                if kind == "spec":
                    sf = sepfreq[it] if sepfreq is not None else 9.999
                    toks.append("%.3f" % sf)
                for i, v in enumerate(vals[it]):
                    fm = {"spec": "%.3f", "swdir": "%.1f", "swdir2": "%.1f", "swr1": "%.2f", "swr2": "%.2f"}[kind]
                    if full:
                        fm = "%.12g"
                    tk = q(fm, v)
                    if "." not in tk[0] and "e" not in tk[0]:
                        tk = (tk[0] + ".0", tk[1])
                    toks.append(tk[0])
                    toks.append("(%s)" % ftoks[i][0])
                    row.append(tk[1])
                lines.append(" ".join(toks))
                said_vals.append(row)
            p = dirpath / f"{station}.{suffix_rt[kind]}"
        else:
            if variant == "history":
                head = "#YY  MM DD hh mm " + " ".join("%6s" % t[0] for t in ftoks)
            else:
                head = "YYYY MM DD hh " + " ".join("%6s" % t[0] for t in ftoks)
            lines.append(head)
            for it, t in enumerate(times):
                row = []
                toks = [t.strftime("%Y %m %d %H %M") if variant == "history" else t.strftime("%Y %m %d %H")]
                for v in vals[it]:
                    if kind == "spec":
                        tk = q("%.12g" if full else "%6.2f", v)
                        tk = (tk[0].rjust(6), tk[1])
                        if variant == "history_old" and not full:
                            s = ("%6.2f" % v).strip()
                            s = s[1:] if s.startswith("0.") else s
                            tk = (s.rjust(6), float(s))
                        said_v = tk[1]
                    elif kind in ("swdir", "swdir2"):
                        tk = q("%.12g", v) if full else ("%6d" % int(round(v)), float(int(round(v))))
                        said_v = tk[1]
                    else:
                        if r_scaled:
                            iv = int(round(v * 100)) if not full else v * 100
                            tk = (("%6d" % iv) if not full else ("%.12g" % iv), None)
                            said_v = float(tk[0]) / 100.0
                        else:
                            tk = q("%.12g" if full else "%6.2f", v)
                            said_v = tk[1]
                    toks.append(tk[0])
                    row.append(said_v)
                lines.append(" ".join(toks))
                said_vals.append(row)
            p = dirpath / f"{station}{letter[kind]}2019.txt"
        text = "\n".join(lines) + "\n"
        if gz:
            p = Path(str(p) + ".gz")
            with gzip.open(p, "wt") as f:
                f.write(text)
        else:
            p.write_text(text)
        paths.append(p)
        said["comps"][kind] = said_vals
    if sepfreq is not None and variant == "realtime":
        said["sepfreq"] = [float("%.3f" % s) for s in sepfreq]
    return paths, said


# ------------------------------------------------------------------------------------------------
# Spotter CSV / JSON
# ------------------------------------------------------------------------------------------------
SPOT_PARAM_COLS = ["Battery Voltage (V)", "Power (W)", "Humidity (%rel)", "Epoch Time", "Significant Wave Height (m)",
                   "Peak Period (s)", "Mean Period (s)", "Peak Direction (deg)", "Peak Directional Spread (deg)",
                   "Mean Direction (deg)", "Mean Directional Spread (deg)", "Latitude (deg)", "Longitude (deg)"]
SPOT_TAIL_COLS = ["Wind Speed (m/s)", "Wind Direction (deg)", "Surface Temperature (°C)",
                  "Partition0 Start Frequency (hz)", "Partition0 Mean Direction (deg)"]
SPOT_SPECTRAL = ["f", "df", "a1", "b1", "a2", "b2", "varianceDensity", "direction", "directionalSpread"]


def enc_spotter_csv(path, recs, freqs, full=False, pad=True):
    """recs: list of dict(time, lat, lon, hs, ef[nf], dm[nf], dspr[nf]); one row each, in the given order."""
    nf = len(freqs)
    cols = list(SPOT_PARAM_COLS)
    for name in SPOT_SPECTRAL:
        cols += [f"{name}_{i}" for i in range(nf)]
    cols += SPOT_TAIL_COLS
    ftok = [q("%.12g" if full else "%.5f", f) for f in freqs]
    said = dict(freqs=[t[1] for t in ftok], recs=[])
    lines = [",".join((c + " ") if pad else c for c in cols)]
    for r in recs:
        cells = ["4.1", "-0.32", "44.8", str(secs(r["time"]))]
        hs = q("%.3f", r["hs"])
        cells += [hs[0], "9.309", "4.951", "288.026", "29.711", "287.326", "35.666"]
        lat, lon = q("%.5f", r["lat"]), q("%.5f", r["lon"])
        cells += [lat[0], lon[0]]
        cells += [t[0] for t in ftok]
        cells += ["0.00977"] * nf
        for _ in range(4):
            cells += ["0.093842"] * nf
        ef = [q("%.12g" if full else "%.6e", v) for v in r["ef"]]
        dm = [q("%.12g" if full else "%.6f", v) for v in r["dm"]]
        ds = [q("%.12g" if full else "%.6f", v) for v in r["dspr"]]
        cells += [t[0] for t in ef] + [t[0] for t in dm] + [t[0] for t in ds]
        cells += ["4.00", "280.00", "16.94", "-", "-"]
        lines.append(",".join((("  " + c + " ") if pad else c) for c in cells))
        said["recs"].append(dict(time=r["time"], lat=lat[1], lon=lon[1], hs=hs[1], ef=[t[1] for t in ef], dm=[t[1] for t in dm],
                                 dspr=[t[1] for t in ds]))
    Path(path).write_text("\n".join(lines) + "\n", encoding="utf-8")
    return said


def enc_spotter_json(path, recs, freqs, wave_time_offset=0):
    """JSON as returned by the Sofar API; `wave_time_offset` seconds between waves[i].timestamp and
    frequencyData[i].timestamp (0 in the usual case; one hour in the repository's own sample)."""
    def ts(t):
        return t.strftime("%Y-%m-%dT%H:%M:%S.000Z")

    waves, fd = [], []
    said = dict(freqs=[float(repr(float(f))) for f in freqs], recs=[])
    for r in recs:
        tw = r["time"] + dt.timedelta(seconds=wave_time_offset)
        waves.append(dict(significantWaveHeight=round(r["hs"], 2), peakPeriod=10.24, meanPeriod=8.73, peakDirection=299.98,
                          peakDirectionalSpread=63.32, meanDirection=349.21, meanDirectionalSpread=69.95, timestamp=ts(tw),
                          latitude=round(r["lat"], 5), longitude=round(r["lon"], 5)))
        fd.append(dict(frequency=[float(f) for f in freqs], df=[0.00977] * len(freqs), a1=[0.04] * len(freqs), b1=[-0.2] * len(freqs),
                       a2=[-0.2] * len(freqs), b2=[-0.23] * len(freqs), varianceDensity=[float(v) for v in r["ef"]],
                       direction=[float(v) for v in r["dm"]], directionalSpread=[float(v) for v in r["dspr"]], timestamp=ts(r["time"]),
                       latitude=round(r["lat"], 5), longitude=round(r["lon"], 5)))
        said["recs"].append(dict(time=r["time"], wave_time=tw, lat=round(r["lat"], 5), lon=round(r["lon"], 5), hs=round(r["hs"], 2),
                                 ef=[float(v) for v in r["ef"]], dm=[float(v) for v in r["dm"]], dspr=[float(v) for v in r["dspr"]]))
    Path(path).write_text(json.dumps({"data": {"spotterId": "SPOT-0070", "limit": 100, "waves": waves, "frequencyData": fd}}))
    return said


# ------------------------------------------------------------------------------------------------
# Datawell SPT
# ------------------------------------------------------------------------------------------------
def enc_datawell(dirpath, rec, freqs, location="buoy", full=False):
    """rec: dict(time (minute resolution), hs_cm, smax, rel[nf], dm[nf], dspr[nf]).  One file per record; the time is in
    the file name (`<location>}<yyyy-mm-ddThhhmmZ>.spt`)."""
    name = "%s}%s.spt" % (location, rec["time"].strftime("%Y-%m-%dT%Hh%MZ"))
    p = Path(dirpath) / name
    hs = q("%.1f", rec["hs_cm"])
    sm = q("%.12E" if full else "%.4E", rec["smax"])
    lines = ["10", hs[0], "4.545", sm[0], "25.05", "19.65", "7", "-0.17625", "0.37500", "0.26250", "213.8", "68.203"]
    said = dict(time=rec["time"], hs=hs[1] / 100.0, smax=sm[1], rel=[], dm=[], dspr=[], freqs=[])
    for i, f in enumerate(freqs):
        ft = q("%.12g" if full else "%.3f", f)
        rl = q("%.12E" if full else "%.4E", rec["rel"][i])
        dm = q("%.12g" if full else "%.1f", rec["dm"][i])
        ds = q("%.12g" if full else "%.1f", rec["dspr"][i])
        lines.append(",".join([ft[0], rl[0], dm[0], ds[0], "1.49", "2.34"]))
        said["freqs"].append(ft[1]); said["rel"].append(rl[1]); said["dm"].append(dm[1]); said["dspr"].append(ds[1])
    p.write_text("\n".join(lines) + "\n")
    return p, said


# ------------------------------------------------------------------------------------------------
# Obscape CSV
# ------------------------------------------------------------------------------------------------
def enc_obscape(path, rec, freqs, dd, full=False, extra_comment=True):
    """rec: dict(time, lat, lon, values[nf][nd]) in m2/Hz/rad, directions 0, dd, …, 360-dd."""
    nd = int(round(360.0 / dd))
    dirs = [j * dd for j in range(nd)]

    def dfmt(x):
        return ("%d" % x) if float(x).is_integer() else ("%g" % x)

    ft = [q("%.12g" if full else "%.6f", f) for f in freqs]
    lat, lon = q("%.4f", rec["lat"]), q("%.4f", rec["lon"])
    lines = ["# Downloaded at 2024-04-13 19:04:00 [UTC]", "# Station name = Example file", "# Device type = Wavebuoy",
             "# Device serial = 123456", "# Latitude [deg] = " + lat[0], "# Longitude [deg] = " + lon[0],
             "# Timestamp = %d" % secs(rec["time"]), "# Timestring = " + rec["time"].strftime("%Y-%m-%d %H:%M:%S"),
             "# Timezone = Mars/Venus", "# Magnetic declination (corrected) [deg] = 3.14", "# Directions = True North"]
    if extra_comment:
        lines.append("# ")
    lines.append("# Columns [deg] = %s,%s,%s,... %s" % (dfmt(dirs[0]), dfmt(dirs[1]), dfmt(dirs[2 % nd]), dfmt(dirs[-1])))
    lines.append("# Rows [Hz] = " + ",".join(t[0] for t in ft))
    lines.append("# Variance-density [m2/Hz/rad]")
    vals = []
    for row in rec["values"]:
        toks = [q("%.12g" if full else "%.4f", v) for v in row]
        lines.append(",".join(t[0] for t in toks))
        vals.append([t[1] for t in toks])
    Path(path).write_text("\n".join(lines) + "\n")
    return dict(time=rec["time"], lat=lat[1], lon=lon[1], freqs=[t[1] for t in ft], dirs=dirs, values=vals)


# ------------------------------------------------------------------------------------------------
# WW3 station (ww3_outp spectral point output, ASCII)
# ------------------------------------------------------------------------------------------------
def enc_ww3_station(path, freqs, dirs_rad, recs, full=False):
    """dirs_rad: going-to directions in radians as WW3 lists them.  recs: list (in file order) of
    dict(time, stations=[dict(name, lat, lon, depth, wspd, wdir, cspd, cdir, spec[nd][nf] in m2/Hz/rad)])."""
    nf, nd = len(freqs), len(dirs_rad)
    nloc = len(recs[0]["stations"])

    def etoks(xs, per, w, ndg):
        toks = [(fortran_e(x, ndg), None) if not full else ("%.12E" % x, None) for x in xs]
        toks = [(t[0], float(t[0])) for t in toks]
        lines = []
        for i in range(0, len(toks), per):
            lines.append("".join(t[0].rjust(w) for t in toks[i:i + per]))
        return lines, [t[1] for t in toks]

    lines = ["'WAVEWATCH III SPECTRA'  %4d  %4d  %4d 'spectral resolution for points'" % (nf, nd, nloc)]
    fl, fs = etoks(freqs, 8, 10 if not full else 20, 3)
    dl, ds = etoks(dirs_rad, 7, 11 if not full else 20, 3)
    lines += fl + dl
    said = dict(freqs=fs, dirs_rad=ds, recs=[])
    for r in recs:
        lines.append(r["time"].strftime("%Y%m%d %H%M%S"))
        sr = dict(time=r["time"], stations=[])
        for s in r["stations"]:
            lat, lon, dep = q("%.2f", s["lat"]), q("%.2f", s["lon"]), q("%.1f", s["depth"])
            ws, wd = q("%.2f", s["wspd"]), q("%.1f", s["wdir"])
            lines.append("'%-10s' %6s %7s %9s %6s %5s %6s %5s" % (s["name"], lat[0], lon[0], dep[0], ws[0], wd[0], "0.18", "94.1"))
            flat = [s["spec"][j][i] for j in range(nd) for i in range(nf)]
            sl, sv = etoks(flat, 7, 11 if not full else 20, 3)
            lines += sl
            sr["stations"].append(dict(name=s["name"], lat=lat[1], lon=lon[1], depth=dep[1], wspd=ws[1], wdir=wd[1],
                                       spec=[[sv[j * nf + i] for i in range(nf)] for j in range(nd)]))
        said["recs"].append(sr)
    Path(path).write_text("\n".join(lines) + "\n")
    return said


# ------------------------------------------------------------------------------------------------
# SWAN ASCII spectral file
# ------------------------------------------------------------------------------------------------
def enc_swan(path, head, blocks_by_time):
    """head: dict(times (list or None), lonlat(bool), x[], y[], afreq(bool), freqs[], cdir(bool), dirs[] (as listed in the file),
    energy(bool), excval, comments[]).  blocks_by_time: [ntime][nloc] of ("NODATA",) | ("ZERO",) | ("FACTOR", fac, ints[nf][nd]).
    Returns what the file says: times, x, y, freqs, dirs (as listed), decoded blocks (None / zeros / int*factor, file units)."""
    L = ["%-40s%s" % ("SWAN   1", "Swan standard spectral file, version")]
    for c in head.get("comments", ["Data produced by SWAN version 41.31", "Project: verif ;  run number: 01"]):
        L.append("$   " + c)
    if head["times"] is not None:
        L.append("%-40s%s" % ("TIME", "time-dependent data"))
        L.append("%6d%34s%s" % (1, "", "time coding option"))
    L.append("%-40s%s" % (("LONLAT", "locations in spherical coordinates") if head["lonlat"] else ("LOCATIONS", "locations in x-y-space")))
    L.append("%6d%34s%s" % (len(head["x"]), "", "number of locations"))
    xs, ys = [], []
    for x, y in zip(head["x"], head["y"]):
        xt, yt = q("%12.6f", x), q("%12.6f", y)
        L.append(xt[0] + yt[0])
        xs.append(xt[1]); ys.append(yt[1])
    L.append("%-40s%s" % (("AFREQ", "absolute frequencies in Hz") if head["afreq"] else ("RFREQ", "relative frequencies in Hz")))
    L.append("%6d%34s%s" % (len(head["freqs"]), "", "number of frequencies"))
    fs = []
    for f in head["freqs"]:
        t = q("%10.4f", f)
        L.append(t[0]); fs.append(t[1])
    L.append("%-40s%s" % (("CDIR", "spectral Cartesian directions in degr") if head["cdir"] else ("NDIR", "spectral nautical directions in degr")))
    L.append("%6d%34s%s" % (len(head["dirs"]), "", "number of directions"))
    ds = []
    for d in head["dirs"]:
        t = q("%10.4f", d)
        L.append(t[0]); ds.append(t[1])
    L.append("QUANT")
    L.append("%6d%34s%s" % (1, "", "number of quantities in table"))
    if head["energy"]:
        L.append("%-40s%s" % ("EnDens", "energy densities in J/m2/Hz/degr"))
        L.append("%-40s%s" % ("J/m2/Hz/degr", "unit"))
    else:
        L.append("%-40s%s" % ("VaDens", "variance densities in m2/Hz/degr"))
        L.append("%-40s%s" % ("m2/Hz/degr", "unit"))
    L.append("%14.4E%26s%s" % (head.get("excval", -99.0), "", "exception value"))
    said_blocks = []
    nf, nd = len(head["freqs"]), len(head["dirs"])
    for it, blocks in enumerate(blocks_by_time):
        if head["times"] is not None:
            L.append("%-40s%s" % (head["times"][it].strftime("%Y%m%d.%H%M%S"), "date and time"))
        sb = []
        for b in blocks:
            if b[0] == "NODATA":
                L.append("NODATA"); sb.append(("NODATA",))
            elif b[0] == "ZERO":
                L.append("ZERO"); sb.append(("ZERO",))
            else:
                ft = q("%18.8E", b[1])
                L.append("FACTOR"); L.append(ft[0])
                for row in b[2]:
                    assert len(row) == nd
                    L.append("".join(" %5d" % int(v) for v in row))
                assert len(b[2]) == nf
                sb.append(("FACTOR", ft[1], [[int(v) for v in row] for row in b[2]]))
        said_blocks.append(sb)
    Path(path).write_text("\n".join(L) + "\n")
    return dict(times=head["times"], x=xs, y=ys, freqs=fs, dirs=ds, blocks=said_blocks)


# ------------------------------------------------------------------------------------------------
# XWaves MAT (written through scipy.io.savemat: MATLAB level-5; scipy is not wavespectra)
# ------------------------------------------------------------------------------------------------
def enc_xwaves(path, times, freqs, dirs, spec, td_dtype="int32"):
    """spec[nt][nf][nd] in m2/Hz/rad; td = date vectors [y m d H M S]."""
    import numpy as np
    from scipy.io import savemat

    td = np.array([[t.year, t.month, t.day, t.hour, t.minute, t.second] for t in times], dtype=td_dtype)
    savemat(str(path), {"td": td, "fd": np.asarray(freqs, dtype=float).reshape(-1, 1),
                        "thetad": np.asarray(dirs, dtype=float).reshape(1, -1), "spec2d": np.asarray(spec, dtype=float)})
    return dict(times=list(times), freqs=[float(f) for f in freqs], dirs=[float(d) for d in dirs],
                spec=np.asarray(spec, dtype=float).tolist())

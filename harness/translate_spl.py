"""T-tier, rule-based splits: the DECISION LOGIC of `core.utils.waveage`, `core.utils.is_overlap`, `Partition.ptm4`,
`Partition.ptm5`, `Partition.bbox` (wavespectra/partition/partition.py) and `SpecArray.split` (wavespectra/specarray.py)
→ Lean definitions in `lean/WsVerif/Gen/SplKernels.lean` (rewritten only if changed).  Called from
`translate.generate()` after the last generator.  Vocabulary: `Model/SplRt.lean` (namespace `WS.Spl`); bridges to
`Model/Split.lean` FOR ALL INPUTS: `Props/C09spl.lean` (`C09.genspl_*`), helper lemmas `Lemmas/SplBridge.lean`.

Every statement of a translated function is EITHER translated OR pinned verbatim (`ast.unparse`) in `<kernel>_plumbing`
(a theorem of C09spl fixes that list), so nothing is skipped silently: an edited decision statement that no longer
matches its shape makes the kernel untranslatable (missing slot) and/or lands in the plumbing list and breaks the pin.
Signatures (argument names and defaults) are pinned as `<kernel>_sig`.

Reading (trusted; everything after it is proved):

* kernels are generated PER BIN: `freq`, `dir` = labels of one spectral bin, `x` = its value; a partition method returns
  the list of values of that bin in `part = 0, 1, …` = the order of the list handed to `xr.concat(…, dim="part")`;
  `ds.where(m)` followed by the final `return dsout.fillna(c)` = `Spl.whereFill c m x`; `&`, `|`, `~` on masks = `&&`,
  `||`, `!`; `masks = False` = `false`; broadcasting of a freq mask against a dir mask is by dimension name (per bin);
* `self.dset.sortby("dir").sortby("freq")` is recorded as the list of sort keys (`<kernel>_sort`) and pinned; the per-bin
  kernels do not depend on the order of the bins; `float(ds.freq.min())` etc. = `Spl.amin freq` (order-invariant);
* floats = `Rat`; `np.cos` = the oracle parameter `cos`, `celerity` (a module-level function of core/utils.py, bridged
  separately in C01) = the oracle parameter `celerity`, `D2R` = a symbolic parameter whose defining text is pinned;
* a box is `Spl.Dict`; `bbox.get(k, d)` = `Spl.dictGet`, `a or b` = `Spl.orElse` (None and 0 falsy); `raise C(…)` =
  `.error`; a `for` whose body only computes and appends = `List.mapM`; `for a, b in combinations(l, 2): if c: raise` =
  `any` over `Spl.combinations2`; a `for` updating `partitions`/`masks` = `List.foldl` with that state;
* optional arguments are `Option Rat`; `x is not None` = `x.isSome`; a comparison reads `Spl.oget x` and is accepted only
  under an `is not None` guard earlier in the same `and` chain / enclosing `if`; `(dmin or dmax)` = `Spl.truthy`;
* `.sel({dim: slice(lo, hi)})` = `Spl.inSlice lo hi` on the labels (xarray internals not translated), `.sortby([dim])`
  before it = `Spl.sortIdx` (stable); `other[FREQ][0]` / `[-1]` = `Spl.first/last` with an `IndexError` guard unless an
  earlier `or` operand tests `.size == 0`; `xr.concat([self._interp_freq(v), other])` contributes the label `v` in front,
  `[other, self._interp_freq(v)]` at the end (`_interp_freq` itself is pinned text); `splSplitFreq` composes the checks,
  the label slice and the two interpolation blocks in the order in which the translator found them (it insists on the
  source order checks → slice → `tol` → fmin block → fmax block → direction block);
* everything else (apply_ufunc, concat, attrs, metadata, chunking, `regrid_spec` internals) is NOT translated.
"""
import ast

from .translate import Untranslatable, _module, body_stmts, find_func, kernel_is_overlap, lean_str, rat, write_if_changed

UTILS = "wavespectra/core/utils.py"
PART = "wavespectra/partition/partition.py"
SPECARRAY = "wavespectra/specarray.py"

R, OR, B, N, VR, LR, DICT = "R", "OR", "B", "N", "VR", "LR", "DICT"
OK = {}      # python function name -> True once translated
FAILED = {}


def need(name):
    if not OK.get(name):
        raise Untranslatable(f"depends on `{name}`, which is untranslatable ({FAILED.get(name, 'not translated')})")


def U(msg):
    return Untranslatable(msg)


def src(node):
    return ast.unparse(node)


CMP = {ast.Lt: "<", ast.LtE: "≤", ast.Gt: ">", ast.GtE: "≥", ast.Eq: "=", ast.NotEq: "≠"}
ARITH = {ast.Add: "+", ast.Sub: "-", ast.Mult: "*", ast.Div: "/"}


class Ctx:
    def __init__(self, env, alias=None, oracles=()):
        self.env = dict(env)
        self.alias = dict(alias or {})
        self.oracles = set(oracles)
        self.guard = set()      # optional names known to be not None here
        self.nonempty = set()   # arrays known to be non-empty here
        self.oblig = []         # arrays indexed without such knowledge (-> IndexError guard)

    # ---- expressions -------------------------------------------------------------------------
    def expr(self, e):
        s = src(e)
        if s in self.alias:
            return self.alias[s]
        if isinstance(e, ast.Name):
            if e.id in self.env:
                return e.id, self.env[e.id]
            raise U(f"unknown name `{e.id}`")
        if isinstance(e, ast.Constant):
            if isinstance(e.value, bool):
                return str(e.value).lower(), B
            if isinstance(e.value, (int, float)):
                return rat(e.value), R
            raise U(f"constant {s}")
        if isinstance(e, ast.BinOp):
            a, ta = self.expr(e.left)
            b, tb = self.expr(e.right)
            if type(e.op) in ARITH:  # an optional argument under an `is not None` guard is a number
                if ta == OR and isinstance(e.left, ast.Name) and e.left.id in self.guard:
                    a, ta = f"(Spl.oget {a})", R
                if tb == OR and isinstance(e.right, ast.Name) and e.right.id in self.guard:
                    b, tb = f"(Spl.oget {b})", R
            if type(e.op) in ARITH and ta == R and tb == R:
                return f"({a} {ARITH[type(e.op)]} {b})", R
            if isinstance(e.op, ast.BitAnd) and ta == B and tb == B:
                return f"({a} && {b})", B
            if isinstance(e.op, ast.BitOr) and ta == B and tb == B:
                return f"({a} || {b})", B
            raise U(f"operator in `{s}`")
        if isinstance(e, ast.UnaryOp):
            if isinstance(e.op, ast.Not):
                return f"(!{self.cond(e.operand)})", B
            a, ta = self.expr(e.operand)
            if isinstance(e.op, ast.USub) and ta == R:
                return f"(-{a})", R
            if isinstance(e.op, ast.Invert) and ta == B:
                return f"(!{a})", B
            raise U(f"unary operator in `{s}`")
        if isinstance(e, ast.BoolOp):
            return self.boolop(e)
        if isinstance(e, ast.Compare):
            return self.compare(e)
        if isinstance(e, ast.Call):
            return self.call(e)
        if isinstance(e, ast.Attribute):
            a, ta = self.expr(e.value)
            if ta == VR and e.attr == "size":
                return f"({a}).length", N
            if ta == VR and e.attr == "values":
                return a, VR
            raise U(f"attribute `{s}`")
        if isinstance(e, ast.Subscript):
            a, ta = self.expr(e.value)
            if ta == VR and src(e.slice) in ("0", "-1"):
                if a not in self.nonempty and a not in self.oblig:
                    self.oblig.append(a)
                return f"(Spl.{'first' if src(e.slice) == '0' else 'last'} {a})", R
            raise U(f"subscript `{s}`")
        raise U(f"expression `{s}`")

    def cond(self, e):
        a, ta = self.expr(e)
        if ta == B:
            return a
        if ta == OR:
            return f"(Spl.truthy {a})"
        raise U(f"truth value of `{src(e)}` (type {ta})")

    def boolop(self, e):
        saved_g, saved_n = set(self.guard), set(self.nonempty)
        if isinstance(e.op, ast.Or) and len(e.values) == 2 and self.peek_ty(e.values[0]) == OR:
            a, ta = self.expr(e.values[0])
            b, tb = self.expr(e.values[1])
            if tb == R:
                return f"(Spl.orElse {a} {b})", R
            if tb == OR:
                return f"(Spl.truthy {a} || Spl.truthy {b})", B
            raise U(f"`or` in `{src(e)}`")
        parts = []
        for v in e.values:
            parts.append(self.cond(v))
            if isinstance(e.op, ast.Or):
                # `X.size == 0 or …`: later operands are evaluated only when X is non-empty
                if (isinstance(v, ast.Compare) and len(v.ops) == 1 and isinstance(v.ops[0], ast.Eq) and src(v.comparators[0]) == "0"
                        and isinstance(v.left, ast.Attribute) and v.left.attr == "size"):
                    arr, t = self.expr(v.left.value)
                    if t == VR:
                        self.nonempty.add(arr)
                self.guard = set(saved_g)  # an `is not None` operand of an `or` guards nothing
        op = " || " if isinstance(e.op, ast.Or) else " && "
        if isinstance(e.op, ast.Or):
            self.guard = saved_g
        self.nonempty = saved_n
        return "(" + op.join(parts) + ")", B

    def num(self, e, other_ty):
        """operand of a comparison"""
        if other_ty == N and isinstance(e, ast.Constant) and isinstance(e.value, int) and not isinstance(e.value, bool) and e.value >= 0:
            return str(e.value), N
        a, t = self.expr(e)
        if t == OR:
            if not (isinstance(e, ast.Name) and e.id in self.guard):
                raise U(f"optional `{src(e)}` compared without an `is not None` guard")
            return f"(Spl.oget {a})", R
        return a, t

    def compare(self, e):
        if len(e.ops) != 1:
            raise U(f"chained comparison `{src(e)}`")
        op, rhs = e.ops[0], e.comparators[0]
        if isinstance(op, ast.IsNot) and isinstance(rhs, ast.Constant) and rhs.value is None and isinstance(e.left, ast.Name):
            a, t = self.expr(e.left)
            if t != OR:
                raise U(f"`{src(e)}` on a non-optional")
            self.guard.add(e.left.id)
            return f"{a}.isSome", B
        if type(op) not in CMP:
            raise U(f"comparison `{src(e)}`")
        lt = self.peek_ty(e.left)
        rt = self.peek_ty(rhs)
        a, ta = self.num(e.left, rt)
        b, tb = self.num(rhs, lt)
        if ta == tb and ta in (R, N):
            return f"(decide ({a} {CMP[type(op)]} {b}))", B
        raise U(f"comparison `{src(e)}` of {ta} with {tb}")

    def peek_ty(self, e):
        if isinstance(e, ast.Constant):
            return None
        saved = (set(self.guard), set(self.nonempty), list(self.oblig))
        try:
            return self.expr(e)[1]
        finally:
            self.guard, self.nonempty, self.oblig = saved

    def call(self, e):
        f = src(e.func)
        s = src(e)
        if e.keywords:
            raise U(f"keyword arguments in `{s}`")
        if f == "float" and len(e.args) == 1:
            a, t = self.expr(e.args[0])
            if t != R:
                raise U(f"`{s}`")
            return a, R
        if f == "abs" and len(e.args) == 1:
            a, t = self.expr(e.args[0])
            if t != R:
                raise U(f"`{s}`")
            return f"(WS.absR {a})", R
        if f == "np.cos" and "cos" in self.oracles and len(e.args) == 1:
            a, t = self.expr(e.args[0])
            if t != R:
                raise U(f"`{s}`")
            return f"(cos {a})", R
        if f == "celerity" and "celerity" in self.oracles and len(e.args) == 2:
            (a, ta), (b, tb) = self.expr(e.args[0]), self.expr(e.args[1])
            if (ta, tb) != (R, R):
                raise U(f"`{s}`")
            return f"(celerity {a} {b})", R
        if f == "len" and len(e.args) == 1:
            a, t = self.expr(e.args[0])
            if t != VR:
                raise U(f"`{s}`")
            return f"({a}).length", N
        if isinstance(e.func, ast.Attribute) and e.func.attr in ("min", "max") and not e.args:
            a, t = self.expr(e.func.value)
            if t != VR:
                raise U(f"`{s}`")
            return f"(Spl.a{e.func.attr} {a})", R
        if isinstance(e.func, ast.Attribute) and e.func.attr == "get" and len(e.args) == 2:
            a, t = self.expr(e.func.value)
            k = e.args[0]
            d, td = self.expr(e.args[1])
            if t != DICT or td != R or not (isinstance(k, ast.Constant) and isinstance(k.value, str)):
                raise U(f"`{s}`")
            return f"(Spl.dictGet {a} {lean_str(k.value)} {d})", OR
        if f == "sorted" and len(e.args) == 1:
            u = e.args[0]
            if (isinstance(u, ast.Call) and isinstance(u.func, ast.Attribute) and u.func.attr == "union" and len(u.args) == 1 and not u.keywords
                    and isinstance(u.func.value, ast.Call) and src(u.func.value.func) == "set" and len(u.func.value.args) == 1
                    and isinstance(u.args[0], ast.List) and len(u.args[0].elts) == 1):
                a, ta = self.expr(u.func.value.args[0])
                b, tb = self.expr(u.args[0].elts[0])
                if (ta, tb) == (VR, R):
                    return f"(Spl.sortedUnion {a} [{b}])", VR
            raise U(f"`{s}`")
        if f == "is_overlap" and len(e.args) == 2:
            need("is_overlap")
            (a, ta), (b, tb) = self.expr(e.args[0]), self.expr(e.args[1])
            if (ta, tb) != (LR, LR):
                raise U(f"`{s}`")
            return f"(splIsOverlap {a} {b})", B
        if f == "waveage" and len(e.args) == 6:
            need("waveage")
            args = [self.expr(a) for a in e.args]
            if any(t != R for _, t in args):
                raise U(f"`{s}`")
            return "(splWaveage cos celerity D2R " + " ".join(a for a, _ in args) + ")", B
        raise U(f"call `{s}`")


# ------------------------------------------------------------------------------------------------
# helpers on function shapes
# ------------------------------------------------------------------------------------------------
def signature(fn, expect):
    a = fn.args
    if a.vararg or a.kwarg or a.kwonlyargs or a.posonlyargs or fn.decorator_list:
        raise U(f"{fn.name}: signature / decorators")
    names = [x.arg for x in a.args]
    if names != expect:
        raise U(f"{fn.name}: arguments {names}, expected {expect}")
    defaults = [None] * (len(names) - len(a.defaults)) + list(a.defaults)
    return list(zip(names, defaults))


def sig_def(lean, sig):
    body = ", ".join(f"({lean_str(n)}, {lean_str('' if d is None else src(d))})" for n, d in sig)
    return f"def {lean}_sig : List (String × String) := [{body}]\n"


def plumbing_def(lean, stmts):
    return f"def {lean}_plumbing : List String := [{', '.join(lean_str(src(s)) for s in stmts)}]\n"


def sort_chain(v, base="self.dset"):
    """`self.dset.sortby("a").sortby("b")` -> ["a", "b"]"""
    keys = []
    while (isinstance(v, ast.Call) and isinstance(v.func, ast.Attribute) and v.func.attr == "sortby" and len(v.args) == 1
           and not v.keywords and isinstance(v.args[0], ast.Constant) and isinstance(v.args[0].value, str)):
        keys.insert(0, v.args[0].value)
        v = v.func.value
    if src(v) != base or not keys:
        return None
    return keys


def assign1(s):
    if isinstance(s, ast.Assign) and len(s.targets) == 1 and isinstance(s.targets[0], ast.Name):
        return s.targets[0].id, s.value
    return None, None


def where_call(v, ds):
    """`<ds>.where(m)` -> m"""
    if (isinstance(v, ast.Call) and isinstance(v.func, ast.Attribute) and v.func.attr == "where" and src(v.func.value) == ds
            and len(v.args) == 1 and not v.keywords):
        return v.args[0]
    return None


def concat_call(v, dim='"part"'):
    if (isinstance(v, ast.Call) and src(v.func) == "xr.concat" and len(v.args) == 1 and len(v.keywords) == 1
            and v.keywords[0].arg == "dim"):
        return v.args[0], src(v.keywords[0].value)
    return None, None


def fill_return(s):
    """`return X.fillna(c)` -> (X, c)"""
    if (isinstance(s, ast.Return) and isinstance(s.value, ast.Call) and isinstance(s.value.func, ast.Attribute)
            and s.value.func.attr == "fillna" and isinstance(s.value.func.value, ast.Name) and len(s.value.args) == 1
            and not s.value.keywords and isinstance(s.value.args[0], ast.Constant)
            and isinstance(s.value.args[0].value, (int, float)) and not isinstance(s.value.args[0].value, bool)):
        return s.value.func.value.id, rat(s.value.args[0].value)
    return None, None


def module_assign(path, name):
    vals = [s.value for s in _module(path).body if assign1(s)[0] == name]
    if len(vals) != 1:
        raise U(f"{path}: expected exactly one module-level assignment of `{name}`")
    return vals[0]


def module_has_def(path, name):
    return sum(1 for s in _module(path).body if isinstance(s, ast.FunctionDef) and s.name == name) == 1


def imports_of(path, wanted):
    """source text of the import statements binding the wanted names"""
    out = []
    for s in _module(path).body:
        if isinstance(s, ast.ImportFrom):
            for al in s.names:
                if (al.asname or al.name) in wanted:
                    out.append(f"from {s.module} import {al.name}" + (f" as {al.asname}" if al.asname else ""))
        elif isinstance(s, ast.Import):
            for al in s.names:
                if (al.asname or al.name) in wanted:
                    out.append(f"import {al.name}" + (f" as {al.asname}" if al.asname else ""))
    return out


# ------------------------------------------------------------------------------------------------
# kernels
# ------------------------------------------------------------------------------------------------
def k_waveage():
    fn = find_func(UTILS, "waveage")
    sig = signature(fn, ["freq", "dir", "wspd", "wdir", "dpt", "agefac"])
    if not module_has_def(UTILS, "celerity"):
        raise U("waveage: `celerity` is not a module-level function of core/utils.py")
    d2r = module_assign(UTILS, "D2R")
    cx = Ctx({n: R for n, _ in sig} | {"D2R": R}, oracles=("cos", "celerity"))
    lines = []
    stmts = body_stmts(fn)
    for s in stmts[:-1]:
        n, v = assign1(s)
        if n is None:
            raise U(f"waveage: statement `{src(s)}`")
        a, t = cx.expr(v)
        if t != R:
            raise U(f"waveage: `{src(s)}` is not a number")
        lines.append(f"  let {n} := {a}")
        cx.env[n] = R
    if not isinstance(stmts[-1], ast.Return):
        raise U("waveage: final return")
    a, t = cx.expr(stmts[-1].value)
    if t != B:
        raise U("waveage: does not return a mask")
    text = sig_def("splWaveage", sig)
    text += f"def splWaveage_D2R_src : String := {lean_str(src(d2r))}\n"
    text += f"def splWaveage_imports : List String := [{', '.join(lean_str(x) for x in imports_of(UTILS, {'np'}))}]\n"
    text += ("/-- `core.utils.waveage` at one bin: `true` = wind sea -/\n"
             "def splWaveage (cos : Rat → Rat) (celerity : Rat → Rat → Rat) (D2R : Rat) (freq dir wspd wdir dpt agefac : Rat) : Bool :=\n"
             + "\n".join(lines) + f"\n  {a}\n")
    OK["waveage"] = True
    return text


def k_is_overlap():
    kernel_is_overlap()  # raises if `is_overlap` left the scalar grammar (it also checks the two 4-tuples unpacked from rect1, rect2)
    fn = find_func(UTILS, "is_overlap")
    sig = signature(fn, ["rect1", "rect2"])
    text = sig_def("splIsOverlap", sig)
    text += ("/-- `is_overlap(rect1, rect2)` on two lists: the scalar kernel `Gen.isOverlap` after its two unpackings -/\n"
             "def splIsOverlap (rect1 rect2 : List Rat) : Bool :=\n"
             "  Gen.isOverlap (getR rect1 0) (getR rect1 1) (getR rect1 2) (getR rect1 3) (getR rect2 0) (getR rect2 1) (getR rect2 2) (getR rect2 3)\n")
    OK["is_overlap"] = True
    return text


def part_common(fn, lean, stmts, ds_holder):
    """slots shared by ptm4/ptm5/bbox: the sort statement (first), the final `return X.fillna(c)`"""
    n, v = assign1(stmts[0])
    keys = sort_chain(v) if n else None
    if keys is None:
        raise U(f"{fn.name}: first statement is not `<name> = self.dset.sortby(…)…`")
    retvar, fill = fill_return(stmts[-1])
    if retvar is None:
        raise U(f"{fn.name}: last statement is not `return <name>.fillna(<number>)`")
    ds_holder.append(n)
    text = f"def {lean}_sort : List String := [{', '.join(lean_str(k) for k in keys)}]\n"
    return text, n, retvar, fill


def parts_list(fn, s, partvars, retvar):
    n, v = assign1(s)
    lst, dim = concat_call(v) if n else (None, None)
    if lst is None:
        return None
    if dim != "'part'" or n != retvar or not isinstance(lst, ast.List) or not all(isinstance(x, ast.Name) and x.id in partvars for x in lst.elts):
        raise U(f"{fn.name}: `{src(s)}`")
    return [x.id for x in lst.elts]


def k_ptm4():
    need("waveage")
    fn = find_func(PART, "Partition.ptm4")
    sig = signature(fn, ["self", "wspd", "wdir", "dpt", "agefac"])
    dflt = dict(sig)["agefac"]
    if not (isinstance(dflt, ast.Subscript) and src(dflt.value) == "DEFAULTS" and isinstance(dflt.slice, ast.Constant)):
        raise U("ptm4: default of agefac is not DEFAULTS[<key>]")
    table = module_assign(PART, "DEFAULTS")
    if not isinstance(table, ast.Dict):
        raise U("DEFAULTS is not a dict literal")
    vals = [v for k, v in zip(table.keys, table.values) if isinstance(k, ast.Constant) and k.value == dflt.slice.value]
    if len(vals) != 1 or not isinstance(vals[0], ast.Constant) or isinstance(vals[0].value, bool) or not isinstance(vals[0].value, (int, float)):
        raise U("ptm4: DEFAULTS entry of agefac")
    stmts = body_stmts(fn)
    holder = []
    text, ds, retvar, fill = part_common(fn, "splPtm4", stmts, holder)
    cx = Ctx({"wspd": R, "wdir": R, "dpt": R, "agefac": R}, alias={f"{ds}.freq": ("freq", R), f"{ds}.dir": ("dir", R)})
    lines, plumbing, partvars, order = [], [stmts[0]], set(), None
    for s in stmts[1:-1]:
        n, v = assign1(s)
        if n and isinstance(v, ast.Call) and src(v.func) == "waveage":
            a, t = cx.expr(v)
            lines.append(f"  let {n} := {a}")
            cx.env[n] = t
            continue
        m = where_call(v, ds) if n else None
        if m is not None:
            a = cx.cond(m)
            lines.append(f"  let {n} := Spl.whereFill {fill} {a} x")
            partvars.add(n)
            continue
        o = parts_list(fn, s, partvars, retvar)
        if o is not None:
            if order is not None:
                raise U("ptm4: two concat statements")
            order = o
            continue
        plumbing.append(s)
    if order is None:
        raise U("ptm4: no `xr.concat([...], dim='part')` of the masked copies")
    text += sig_def("splPtm4", sig)
    text += f"def splPtm4_agefac_default : Rat := {rat(vals[0].value)}\n"
    text += f"def splPtm4_imports : List String := [{', '.join(lean_str(x) for x in imports_of(PART, {'waveage', 'xr'}))}]\n"
    text += plumbing_def("splPtm4", plumbing)
    text += ("/-- `Partition.ptm4` at one bin: the values of `part = 0, 1` -/\n"
             "def splPtm4 (cos : Rat → Rat) (celerity : Rat → Rat → Rat) (D2R : Rat) (freq dir wspd wdir dpt agefac x : Rat) : List Rat :=\n"
             + "\n".join(lines) + f"\n  [{', '.join(order)}]\n")
    return text


def k_ptm5():
    fn = find_func(PART, "Partition.ptm5")
    sig = signature(fn, ["self", "fcut", "interpolate"])
    stmts = body_stmts(fn)
    holder = []
    text, ds, retvar, fill = part_common(fn, "splPtm5", stmts, holder)
    cx = Ctx({"fcut": R}, alias={f"{ds}.freq": ("freq", R), f"{ds}.dir": ("dir", R)})
    lines, plumbing, partvars, order, grid = [], [stmts[0]], set(), None, None
    for s in stmts[1:-1]:
        if isinstance(s, ast.If) and src(s.test) == "interpolate":
            if grid is not None or s.orelse or len(s.body) != 2:
                raise U("ptm5: shape of the `if interpolate:` block")
            g = Ctx({"fcut": R, "interpolate": B}, alias={"self.dset.freq": ("freq", VR)})
            n, v = assign1(s.body[0])
            if n is None:
                raise U(f"ptm5: `{src(s.body[0])}`")
            a, t = g.expr(v)
            if t != VR:
                raise U(f"ptm5: `{src(s.body[0])}`")
            g.env[n] = VR
            inner = s.body[1]
            if not (isinstance(inner, ast.If) and not inner.orelse and len(inner.body) == 1):
                raise U("ptm5: shape of the regrid test")
            c = g.cond(inner.test)
            tn, tv = assign1(inner.body[0])
            if not (tn == ds and isinstance(tv, ast.Call) and src(tv.func) == "regrid_spec" and [src(x) for x in tv.args] == ["self.dset"]
                    and [(k.arg, src(k.value)) for k in tv.keywords] == [("freq", n)]):
                raise U(f"ptm5: `{src(inner.body[0])}` is not `{ds} = regrid_spec(self.dset, freq={n})`")
            grid = (f"  if interpolate then\n    let {n} := {a}\n    if {c} then some {n} else none\n  else none\n")
            continue
        n, v = assign1(s)
        m = where_call(v, ds) if n else None
        if m is not None:
            a = cx.cond(m)
            lines.append(f"  let {n} := Spl.whereFill {fill} {a} x")
            partvars.add(n)
            continue
        o = parts_list(fn, s, partvars, retvar)
        if o is not None:
            if order is not None:
                raise U("ptm5: two concat statements")
            order = o
            continue
        plumbing.append(s)
    if order is None or grid is None:
        raise U("ptm5: missing concat of the masked copies / `if interpolate:` block")
    rg = find_func(UTILS, "regrid_spec")
    text += sig_def("splPtm5", sig)
    text += f"def splPtm5_regrid_sig : String := {lean_str(src(rg.args))}\n"
    text += f"def splPtm5_imports : List String := [{', '.join(lean_str(x) for x in imports_of(PART, {'regrid_spec', 'xr'}))}]\n"
    text += plumbing_def("splPtm5", plumbing)
    text += ("/-- `Partition.ptm5`: the frequency grid handed to `regrid_spec(self.dset, freq=…)`, `none` = no regridding -/\n"
             "def splPtm5Grid (freq : List Rat) (fcut : Rat) (interpolate : Bool) : Option (List Rat) :=\n" + grid)
    text += ("/-- `Partition.ptm5` at one bin (of the possibly regridded spectrum): the values of `part = 0, 1` -/\n"
             "def splPtm5 (freq dir fcut x : Rat) : List Rat :=\n" + "\n".join(lines) + f"\n  [{', '.join(order)}]\n")
    return text


RECT_NAMES = 4


def unpack4(s, src_name):
    """`a, b, c, d = <src_name>` -> [a, b, c, d]"""
    if (isinstance(s, ast.Assign) and len(s.targets) == 1 and isinstance(s.targets[0], ast.Tuple) and src(s.value) == src_name
            and len(s.targets[0].elts) == RECT_NAMES and all(isinstance(x, ast.Name) for x in s.targets[0].elts)):
        return [x.id for x in s.targets[0].elts]
    return None


def k_bbox():
    need("is_overlap")
    fn = find_func(PART, "Partition.bbox")
    sig = signature(fn, ["self", "bboxes"])
    stmts = body_stmts(fn)
    holder = []
    text, ds, retvar, fill = part_common(fn, "splBbox", stmts, holder)
    plumbing = [stmts[0]]
    rects_def = overlap_def = parts_def = None
    rectvar = partsvar = masksvar = None
    inits = {}
    concat_ok = False
    i = 1
    body = stmts[1:-1]
    for s in body:
        n, v = assign1(s)
        if n and isinstance(v, ast.List) and not v.elts:
            inits[n] = "[]"
            continue
        if n and isinstance(v, ast.Constant) and v.value is False:
            inits[n] = "false"
            continue
        # loop 1: one rectangle per box dictionary
        if isinstance(s, ast.For) and src(s.iter) == "bboxes" and isinstance(s.target, ast.Name) and not s.orelse:
            if rects_def is not None:
                raise U("bbox: two loops over `bboxes`")
            bx = s.target.id
            cx = Ctx({bx: DICT}, alias={f"{ds}.freq": ("freq", VR), f"{ds}.dir": ("dir", VR)})
            lines = []
            result = None
            for t in s.body:
                tn, tv = assign1(t)
                if tn:
                    a, ty = cx.expr(tv)
                    if ty != R:
                        raise U(f"bbox: `{src(t)}`")
                    lines.append(f"  let {tn} := {a}")
                    cx.env[tn] = R
                elif (isinstance(t, ast.If) and not t.orelse and len(t.body) == 1 and isinstance(t.body[0], ast.Raise)
                      and isinstance(t.body[0].exc, ast.Call) and src(t.body[0].exc.func) == "ValueError"):
                    lines.append(f"  if {cx.cond(t.test)} then .error .valueError else")
                elif (isinstance(t, ast.Expr) and isinstance(t.value, ast.Call) and isinstance(t.value.func, ast.Attribute)
                      and t.value.func.attr == "append" and isinstance(t.value.func.value, ast.Name) and len(t.value.args) == 1
                      and isinstance(t.value.args[0], ast.List) and t is s.body[-1]):
                    rectvar = t.value.func.value.id
                    els = [cx.expr(x) for x in t.value.args[0].elts]
                    if len(els) != RECT_NAMES or any(ty != R for _, ty in els):
                        raise U(f"bbox: `{src(t)}`")
                    result = "[" + ", ".join(a for a, _ in els) + "]"
                else:
                    raise U(f"bbox: statement `{src(t)[:80]}` in the loop over boxes")
            if result is None or inits.get(rectvar) != "[]":
                raise U("bbox: the loop over boxes does not end with `<list>.append([…])` on a list initialised to `[]`")
            rects_def = ("/-- one iteration of the first loop of `Partition.bbox`: the rectangle of one box dictionary, or ValueError -/\n"
                         f"def splBboxRect (freq dir : List Rat) ({bx} : Spl.Dict) : Except Err (List Rat) :=\n" + "\n".join(lines)
                         + f"\n  .ok {result}\n"
                         "/-- the first loop: a `for` that only computes and appends -/\n"
                         "def splBboxRects (freq dir : List Rat) (bboxes : List Spl.Dict) : Except Err (List (List Rat)) :=\n"
                         "  bboxes.mapM (splBboxRect freq dir)\n")
            continue
        # loop 2: pairwise overlap rejection
        if (isinstance(s, ast.For) and isinstance(s.iter, ast.Call) and src(s.iter.func) == "combinations" and not s.orelse
                and rectvar is not None):
            if overlap_def is not None:
                raise U("bbox: two overlap loops")
            if [src(a) for a in s.iter.args] != [rectvar, "2"] or s.iter.keywords:
                raise U(f"bbox: `{src(s.iter)}` is not `combinations({rectvar}, 2)`")
            if not (isinstance(s.target, ast.Tuple) and len(s.target.elts) == 2 and all(isinstance(x, ast.Name) for x in s.target.elts)):
                raise U("bbox: target of the overlap loop")
            a, b = (x.id for x in s.target.elts)
            if not (len(s.body) == 1 and isinstance(s.body[0], ast.If) and not s.body[0].orelse):
                raise U("bbox: body of the overlap loop")
            cx = Ctx({a: LR, b: LR})
            c = cx.cond(s.body[0].test)
            inner = s.body[0].body
            if not (isinstance(inner[-1], ast.Raise) and isinstance(inner[-1].exc, ast.Call) and src(inner[-1].exc.func) == "ValueError"
                    and all(unpack4(t, a) or unpack4(t, b) for t in inner[:-1])):
                raise U("bbox: the overlap branch does more than unpack and raise ValueError")
            overlap_def = ("/-- the second loop of `Partition.bbox`: ValueError as soon as two rectangles overlap -/\n"
                           "def splBboxOverlap (rectangles : List (List Rat)) : Except Err Unit :=\n"
                           f"  if (Spl.combinations2 rectangles).any (fun p => let {a} := p.1; let {b} := p.2; {c}) then .error .valueError else .ok ()\n")
            continue
        # loop 3: masks and partitions
        if (isinstance(s, ast.For) and rectvar is not None and src(s.iter) == rectvar and isinstance(s.target, ast.Name) and not s.orelse):
            if parts_def is not None:
                raise U("bbox: two partition loops")
            rv = s.target.id
            cx = Ctx({}, alias={f"{ds}.freq": ("freq", R), f"{ds}.dir": ("dir", R)})
            lines = []
            for t in s.body:
                names = unpack4(t, rv)
                tn, tv = assign1(t)
                if names:
                    for k, nm in enumerate(names):
                        lines.append(f"      let {nm} := getR {rv} {k}")
                        cx.env[nm] = R
                elif tn and tn in inits and inits[tn] == "false":
                    # masks = masks | mask
                    cx.env.setdefault(tn, B)
                    a, ty = cx.expr(tv)
                    if ty != B or masksvar not in (None, tn):
                        raise U(f"bbox: `{src(t)}`")
                    masksvar = tn
                    lines.append(f"      let {tn} := {a}")
                elif tn:
                    if masksvar is None:
                        for k0, v0 in inits.items():
                            if v0 == "false":
                                cx.env.setdefault(k0, B)
                    a, ty = cx.expr(tv)
                    if ty != B:
                        raise U(f"bbox: `{src(t)}`")
                    lines.append(f"      let {tn} := {a}")
                    cx.env[tn] = B
                elif (isinstance(t, ast.Expr) and isinstance(t.value, ast.Call) and isinstance(t.value.func, ast.Attribute)
                      and t.value.func.attr == "append" and isinstance(t.value.func.value, ast.Name) and len(t.value.args) == 1
                      and where_call(t.value.args[0], ds) is not None and inits.get(t.value.func.value.id) == "[]"
                      and partsvar in (None, t.value.func.value.id)):
                    partsvar = t.value.func.value.id
                    a = cx.cond(where_call(t.value.args[0], ds))
                    lines.append(f"      let {partsvar} := {partsvar} ++ [Spl.whereFill {fill} {a} x]")
                else:
                    raise U(f"bbox: statement `{src(t)[:80]}` in the partition loop")
            if partsvar is None or masksvar is None:
                raise U("bbox: the partition loop does not update both the list of partitions and the union mask")
            parts_def = [rv, lines]
            continue
        # the complement, after loop 3
        if (parts_def is not None and isinstance(s, ast.Expr) and isinstance(s.value, ast.Call) and isinstance(s.value.func, ast.Attribute)
                and s.value.func.attr == "append" and src(s.value.func.value) == partsvar and len(s.value.args) == 1
                and where_call(s.value.args[0], ds) is not None):
            if len(parts_def) != 2:
                raise U("bbox: two complement statements")
            cx = Ctx({masksvar: B})
            parts_def.append(cx.cond(where_call(s.value.args[0], ds)))
            continue
        if n and concat_call(v)[0] is not None:
            lst, dim = concat_call(v)
            if not (src(lst) == partsvar and dim == "'part'" and n == retvar and parts_def is not None and len(parts_def) == 3):
                raise U(f"bbox: `{src(s)}`")
            concat_ok = True
            continue
        plumbing.append(s)
    if not (rects_def and overlap_def and parts_def and len(parts_def) == 3 and concat_ok):
        raise U("bbox: missing slot (rectangle loop / overlap loop / partition loop / complement / concat)")
    rv, lines, compl = parts_def
    text += sig_def("splBbox", sig)
    text += f"def splBbox_imports : List String := [{', '.join(lean_str(x) for x in imports_of(PART, {'combinations', 'is_overlap', 'xr'}))}]\n"
    text += plumbing_def("splBbox", plumbing)
    text += rects_def + overlap_def
    text += ("/-- the decisions of `Partition.bbox` before any masking: the rectangles, or ValueError -/\n"
             "def splBbox (freq dir : List Rat) (bboxes : List Spl.Dict) : Except Err (List (List Rat)) :=\n"
             "  match splBboxRects freq dir bboxes with\n  | .error e => .error e\n  | .ok rectangles =>\n"
             "    match splBboxOverlap rectangles with\n    | .error e => .error e\n    | .ok _ => .ok rectangles\n")
    text += ("/-- the third loop and the complement at one bin: the values of `part = 0 … len(rectangles)` -/\n"
             f"def splBboxParts (rectangles : List (List Rat)) (freq dir x : Rat) : List Rat :=\n"
             f"  let st := rectangles.foldl (fun (st : List Rat × Bool) ({rv} : List Rat) =>\n"
             f"      let {partsvar} := st.1\n      let {masksvar} := st.2\n" + "\n".join(lines)
             + f"\n      ({partsvar}, {masksvar})) ({inits[partsvar]}, {inits[masksvar]})\n"
             f"  let {partsvar} := st.1\n  let {masksvar} := st.2\n"
             f"  {partsvar} ++ [Spl.whereFill {fill} {compl} x]\n")
    return text


def k_split():
    fn = find_func(SPECARRAY, "SpecArray.split")
    sig = signature(fn, ["self", "fmin", "fmax", "dmin", "dmax", "interpolate", "rechunk"])
    for nm in ("fmin", "fmax", "dmin", "dmax"):
        if src(dict(sig)[nm]) != "None":
            raise U(f"split: default of {nm} is not None")
    stmts = body_stmts(fn)
    opt = {"fmin": OR, "fmax": OR, "dmin": OR, "dmax": OR, "interpolate": B}
    valid, plumbing = [], []
    tol = band = low = high = dirs = None
    other = None
    FREQ, DIR = "attrs.FREQNAME", "attrs.DIRNAME"

    def interp_concat(s, var):
        """`other = xr.concat([self._interp_freq(v), other], dim=FREQ)` -> ("front"|"back", v)"""
        n, v = assign1(s)
        lst, dim = concat_call(v) if n else (None, None)
        if n != other or lst is None or dim != FREQ or not isinstance(lst, ast.List) or len(lst.elts) != 2:
            return None
        kinds = []
        for x in lst.elts:
            if src(x) == other:
                kinds.append("other")
            elif isinstance(x, ast.Call) and src(x.func) == "self._interp_freq" and [src(a) for a in x.args] == [var] and not x.keywords:
                kinds.append("interp")
            else:
                return None
        return {("interp", "other"): "front", ("other", "interp"): "back"}.get(tuple(kinds))

    for s in stmts:
        # argument validation
        if (isinstance(s, ast.If) and not s.orelse and len(s.body) == 1 and isinstance(s.body[0], ast.Raise) and other is None
                and isinstance(s.body[0].exc, ast.Call) and src(s.body[0].exc.func) == "ValueError"):
            cx = Ctx(opt)
            valid.append(cx.cond(s.test))
            continue
        n, v = assign1(s)
        # frequency slice
        if (n and other is None and isinstance(v, ast.Call) and src(v.func) == "self._obj.sel" and not v.args and len(v.keywords) == 1
                and isinstance(v.keywords[0].value, ast.Call) and src(v.keywords[0].value.func) == "slice"):
            sl = v.keywords[0].value
            if v.keywords[0].arg != "freq" or len(sl.args) != 2 or sl.keywords or not all(isinstance(a, ast.Name) and opt.get(a.id) == OR for a in sl.args):
                raise U(f"split: `{src(s)}`")
            other = n
            band = f"Spl.inSlice {sl.args[0].id} {sl.args[1].id} x"
            continue
        if n == "tol" and isinstance(v, ast.Constant) and isinstance(v.value, (int, float)) and not isinstance(v.value, bool) and tol is None:
            tol = rat(v.value)
            continue
        if isinstance(s, ast.If) and other is not None and not s.orelse and len(s.body) == 1 and isinstance(s.body[0], ast.If) \
                and not s.body[0].orelse and len(s.body[0].body) == 1 and tol is not None:
            for var, slot in (("fmin", "low"), ("fmax", "high")):
                side = interp_concat(s.body[0].body[0], var)
                if side is None:
                    continue
                cx = Ctx(opt | {"tol": R}, alias={f"{other}[{FREQ}]": ("ofreq", VR)})
                outer = cx.cond(s.test)
                if cx.oblig:
                    raise U("split: indexing in the outer test")
                if var not in cx.guard:
                    raise U(f"split: `{src(s.test)}` does not guard `{var}`")
                inner = cx.cond(s.body[0].test)
                guard = "".join(f"if ({a}).isEmpty then .error .indexError else " for a in cx.oblig)
                d = (f"  if {outer} then\n    {guard}.ok (if {inner} then "
                     + (f"[Spl.oget {var}] ++ ofreq" if side == "front" else f"ofreq ++ [Spl.oget {var}]") + " else ofreq)\n  else .ok ofreq\n")
                if slot == "low" and low is None and high is None:
                    low = d
                elif slot == "high" and high is None and low is not None:
                    high = d
                else:
                    raise U("split: order / multiplicity of the interpolation blocks")
                break
            else:
                plumbing.append(s)
            continue
        # direction slice
        if isinstance(s, ast.If) and other is not None and not s.orelse and DIR in src(s.test) and dirs is None and high is not None:
            cx = Ctx(opt, alias={f"{DIR} in {other}.dims": ("hasDir", B)})
            c = cx.cond(s.test)
            t0 = s.body[0]
            n0, v0 = assign1(t0)
            ok = (n0 == other and isinstance(v0, ast.Call) and isinstance(v0.func, ast.Attribute) and v0.func.attr == "sel"
                  and len(v0.args) == 1 and not v0.keywords and isinstance(v0.args[0], ast.Dict) and len(v0.args[0].keys) == 1
                  and src(v0.args[0].keys[0]) == DIR and isinstance(v0.args[0].values[0], ast.Call)
                  and src(v0.args[0].values[0].func) == "slice" and src(v0.func.value) == f"{other}.sortby([{DIR}])")
            if not ok:
                raise U(f"split: `{src(t0)}` is not `{other} = {other}.sortby([{DIR}]).sel({{{DIR}: slice(lo, hi)}})`")
            sl = v0.args[0].values[0]
            if len(sl.args) != 2 or sl.keywords or not all(isinstance(a, ast.Name) and opt.get(a.id) == OR for a in sl.args):
                raise U(f"split: `{src(sl)}`")
            dirs = (c, sl.args[0].id, sl.args[1].id, [src(t) for t in s.body[1:]])
            continue
        plumbing.append(s)
    if not (valid and band and tol and low and high and dirs):
        raise U("split: missing slot (validation / frequency slice / tol / interpolation at fmin / at fmax / direction slice)")
    interp = find_func(SPECARRAY, "SpecArray._interp_freq")
    text = sig_def("splSplit", sig)
    text += f"def splSplit_tol : Rat := {tol}\n"
    text += plumbing_def("splSplit", plumbing)
    text += f"def splSplit_dir_plumbing : List String := [{', '.join(lean_str(x) for x in dirs[3])}]\n"
    text += f"def splSplit_interp_freq_src : List String := [{', '.join(lean_str(src(t)) for t in body_stmts(interp))}]\n"
    text += ("/-- `SpecArray.split`: the argument checks, in order -/\n"
             "def splSplitValidate (fmin fmax dmin dmax : Option Rat) : Except Err Unit :=\n"
             + "".join(f"  if {c} then .error .valueError else\n" for c in valid) + "  .ok ()\n")
    text += ("/-- membership of a frequency label in `self._obj.sel(freq=slice(…))` -/\n"
             f"def splSplitFreqBand (fmin fmax : Option Rat) (x : Rat) : Bool := {band}\n")
    text += ("/-- 'Interpolate at fmin': the frequency labels after the block, given those of the label slice -/\n"
             "def splSplitLow (interpolate : Bool) (fmin : Option Rat) (tol : Rat) (ofreq : List Rat) : Except Err (List Rat) :=\n" + low)
    text += ("/-- 'Interpolate at fmax' -/\n"
             "def splSplitHigh (interpolate : Bool) (fmax : Option Rat) (tol : Rat) (ofreq : List Rat) : Except Err (List Rat) :=\n" + high)
    text += ("/-- the frequency labels of the result: the blocks in source order (checks, label slice, `tol`, fmin, fmax) -/\n"
             "def splSplitFreq (freq : List Rat) (fmin fmax dmin dmax : Option Rat) (interpolate : Bool) : Except Err (List Rat) :=\n"
             "  match splSplitValidate fmin fmax dmin dmax with\n  | .error e => .error e\n  | .ok _ =>\n"
             "    let tol := splSplit_tol\n    let ofreq := freq.filter (splSplitFreqBand fmin fmax)\n"
             "    match splSplitLow interpolate fmin tol ofreq with\n    | .error e => .error e\n"
             "    | .ok ofreq => splSplitHigh interpolate fmax tol ofreq\n")
    text += ("/-- the stored direction columns kept by the direction block, in output order -/\n"
             "def splSplitDirCols (hasDir : Bool) (dmin dmax : Option Rat) (dir : List Rat) : List Nat :=\n"
             f"  if {dirs[0]} then (Spl.sortIdx dir).filter (fun j => Spl.inSlice {dirs[1]} {dirs[2]} (getR dir j))\n"
             "  else List.range dir.length\n")
    return text


SPL_KERNELS = [("waveage", k_waveage), ("is_overlap", k_is_overlap), ("ptm4", k_ptm4), ("ptm5", k_ptm5), ("bbox", k_bbox),
               ("split", k_split)]

HEADER = """import WsVerif.Gen.Prelude
import WsVerif.Gen.IsOverlap
import WsVerif.Model.SplRt
/-! GENERATED by harness/translate_spl.py from wavespectra/core/utils.py, partition/partition.py, specarray.py — do not edit.
    Vocabulary: Model/SplRt.lean.  Bridged to Model/Split.lean in Props/C09spl.lean (`genspl_*`). -/
set_option linter.unusedVariables false
namespace WS.Gen
open WS
"""


def generate_spl(gen_dir):
    status = {}
    OK.clear()
    FAILED.clear()
    text = HEADER
    for name, kf in SPL_KERNELS:
        try:
            text += kf() + "\n"
            status["spl_" + name] = "ok"
        except Exception as e:  # Untranslatable or a malformed tree: the tie is broken, the bridges will not build
            msg = f"{type(e).__name__}: {e}".replace("\n", " ")[:300]
            FAILED[name] = msg[:120]
            text += f"-- {name}: untranslatable: {msg.replace('-/', '- /').replace('/-', '/ -')}\n\n"
            status["spl_" + name] = f"untranslatable: {msg}"
    text += "end WS.Gen\n"
    write_if_changed(gen_dir / "SplKernels.lean", text)
    return status

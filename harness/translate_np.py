"""T-tier, vector grammar: whole numpy-level functions of the repository → Lean definitions over `List Rat`.

Called from `translate.generate()`; writes `lean/WsVerif/Gen/NpKernels.lean` (only if changed).  Every generated
definition is connected to the hand-written model by a bridging THEOREM in `Props/C01.lean`, `C02.lean`, `C19.lean`
(section "T-tier: regenerated kernels"), so a change of the arithmetic, of a comparison, of a slice or of a literal in
the repository breaks a proof obligation on the next run.

Grammar (anything else raises `Untranslatable` — never guessed):

* names, numeric literals (floats as the exact rational of the double), `+ - * /`, `**` with a literal natural
  exponent, unary minus, `%`/`np.mod` (→ `WS.pmod`), comparisons, `& | ~`, `and or not`;
* 1-D slices `x[1:]` (→ `List.drop 1`), `x[:-1]` (→ `List.dropLast`), `x[-1]` (→ `WS.lastD`), `x[i]`, `x[i±c]`
  (→ `WS.getR`), fancy indexing by an index list `x[pos]`, `len(x)`, `x.size`;
* elementwise arithmetic scalar∘vector, vector∘vector (`List.map` / `List.zipWith`), scalar∘matrix, matrix∘vector
  (broadcast along the last axis);
* `abs/np.abs/np.absolute`, `sum(v)/np.sum(v)/v.sum()/v.sum(axis=0)`, `m.sum(1)/m.sum(axis=1)` (row sums),
  `np.where(cond)[0]` (index list), `np.minimum/np.maximum`, `np.float32(x)/float(x)` (identity),
  `np.squeeze(m)` (the 1-D branch: `List.flatten`, exact when one dimension is a singleton);
* statements: assignments (→ `let`), `+=`, `if/elif/else` with `return` or assigning branches, `x is not None`
  tests on optional arguments (→ `match`), `for i in range(a, b)` with literal bounds (unrolled), `return`,
  `return np.nan` (→ `none`, the other returns become `some …`), calls of kernels translated earlier;
* transcendental calls only in fixed shapes:
  - final `4.0 * np.sqrt(E)` of `hs`: stripped, the kernel returns the radicand (factor emitted as a constant);
  - `np.cos/np.sin(np.radians(A))`, `np.exp(A)`: ORACLE TABLE parameters; the argument expression `A` is translated
    on its own as a scalar function `<kernel>_<table>_arg` and the call chain recorded as `<kernel>_<table>_fn`;
  - `v = np.arctan2(A, B)`: the kernel is split in `<k>Vec` (returns `(A, B)`) and `<k>Post` (the arithmetic
    after it as a function of the oracle angle);
  - `x ** 0.5` (wavenuma): an oracle function parameter `sqrt : Rat → Rat`.

Integer index arithmetic is done in ℕ (truncated subtraction) exactly as the models do; inside rational
expressions integer leaves are cast first, so `pos[-1] - pos[0]` is the integer difference.
"""
import ast

from .translate import Untranslatable, _module, body_stmts, find_func, rat, write_if_changed

NPSTATS = "wavespectra/core/npstats.py"
UTILS = "wavespectra/core/utils.py"
TRACKING = "wavespectra/partition/tracking.py"

RAT, NAT, BOOL, VEC, MAT, BVEC, IDX, OVEC, ORAT, LIT = "Rat", "Nat", "Bool", "Vec", "Mat", "BVec", "Idx", "OVec", "ORat", "Lit"
LEAN_TY = {RAT: "Rat", NAT: "Nat", BOOL: "Bool", VEC: "List Rat", MAT: "List (List Rat)", BVEC: "List Bool",
           IDX: "List Nat", OVEC: "Option (List Rat)", ORAT: "Option Rat"}
ARITH = {ast.Add: "+", ast.Sub: "-", ast.Mult: "*", ast.Div: "/"}
CMP = {ast.Lt: "<", ast.LtE: "≤", ast.Gt: ">", ast.GtE: "≥", ast.Eq: "=", ast.NotEq: "≠"}


def lean_ty(t):
    if isinstance(t, tuple):
        return " × ".join(lean_ty(x) for x in t)
    return LEAN_TY[t]


def scipy_constants(path):
    """names imported `from scipy.constants import …` at module level"""
    out = set()
    for st in _module(path).body:
        if isinstance(st, ast.ImportFrom) and st.module == "scipy.constants":
            out |= {a.asname or a.name for a in st.names}
    return out


def utils_const(name):
    """module constant of core/utils.py (`R2D = 180.0 / np.pi`) as a Lean term in `pi`"""
    from .translate_native import _module_const

    return _module_const(UTILS, name)


class Kernel:
    """Translation context of one repository function."""

    def __init__(self, path, qualname, lean_name, argtypes, defaults=None, consts=None, tables=(), sqrt_fn=False,
                 calls=None):
        self.path, self.qualname, self.lean_name = path, qualname, lean_name
        self.fn = find_func(path, qualname)
        self.args = [a.arg for a in self.fn.args.args]
        fa = self.fn.args
        if fa.vararg or fa.kwarg or fa.kwonlyargs or fa.posonlyargs:
            raise Untranslatable(f"{qualname}: *args / **kwargs / keyword-only arguments")
        if self.args != list(argtypes):
            raise Untranslatable(f"{qualname}: signature {self.args} (expected {list(argtypes)})")
        self.argtypes = dict(argtypes)
        self.consts = dict(consts or {})     # python name -> (lean term, set of leading parameters it needs)
        self.used_lead = []                  # leading parameters actually used (pi, g, sqrt)
        self.table_names = list(tables)      # names handed to the oracle tables, in source order
        self.tables = []                     # (name, type, fn chain string, arg ast)
        self.sqrt_fn = sqrt_fn
        self.calls = dict(calls or {})       # python function name -> KernelSig
        self.option = any(isinstance(n, ast.Return) and _is_nan(n.value) for n in ast.walk(self.fn))
        self.extra = []                      # extra generated definitions (name, text)
        self.ret = None                      # type of the returned expression
        self.table_cache = {}                # id(call node) -> table (translation of a node must be idempotent)
        # defaults of the python signature, by name
        self.defaults = {}
        d = self.fn.args.defaults
        for a, dv in zip(self.fn.args.args[len(self.fn.args.args) - len(d):], d):
            self.defaults[a.arg] = dv
        for k, v in (defaults or {}).items():
            got = self.defaults.get(k)
            if got is None or ast.unparse(got) != v:
                raise Untranslatable(f"{qualname}: default of {k} is {ast.unparse(got) if got is not None else None}, expected {v}")

    # ----------------------------------------------------------------------------------------- helpers
    def lead(self, name):
        if name not in self.used_lead:
            self.used_lead.append(name)

    def stmts(self):
        return body_stmts(self.fn)

    def env0(self):
        return {a: (a, t) for a, t in self.argtypes.items()}

    def lead_params(self):
        order = [p for p in ("pi", "g") if p in self.used_lead]
        s = ""
        if order:
            s += f"({' '.join(order)} : Rat) "
        if "sqrt" in self.used_lead:
            s += "(sqrt : Rat → Rat) "
        return s

    def lead_args(self):
        return [p for p in ("pi", "g", "sqrt") if p in self.used_lead]

    def params(self, names=None):
        names = self.args if names is None else names
        return " ".join(f"({a} : {lean_ty(self.argtypes[a])})" for a in names)

    def table_params(self):
        return " ".join(f"({n} : {lean_ty(t)})" for n, t, _, _ in self.tables)


class KernelSig:
    def __init__(self, lean_name, lead, argtypes, defaults, tables, ret):
        self.lean_name, self.lead, self.argtypes, self.defaults, self.tables, self.ret = lean_name, lead, argtypes, defaults, tables, ret


def _is_nan(e):
    return e is not None and ast.unparse(e) == "np.nan"


def _call_name(e):
    return ast.unparse(e.func) if isinstance(e, ast.Call) else None


# ------------------------------------------------------------------------------------------------
# expressions
# ------------------------------------------------------------------------------------------------
class Tr:
    def __init__(self, k, env):
        self.k = k
        self.env = dict(env)

    # ---- coercions
    def rat_of(self, lt):
        lean, ty = lt
        if ty == LIT:
            return rat(lean)
        if ty == RAT:
            return lean
        raise Untranslatable(f"expected a rational scalar, got {ty}: {lean}")

    def nat_of(self, lt):
        lean, ty = lt
        if ty == LIT:
            if not isinstance(lean, int) or lean < 0:
                raise Untranslatable(f"index literal {lean!r}")
            return str(lean)
        if ty == NAT:
            return lean
        raise Untranslatable(f"expected an integer, got {ty}: {lean}")

    def int_as_rat(self, e):
        """integer-valued expression inside a rational expression: cast the leaves, keep the arithmetic in ℚ"""
        if isinstance(e, ast.BinOp) and type(e.op) in (ast.Add, ast.Sub, ast.Mult):
            l, r = self.tr(e.left), self.tr(e.right)
            if l[1] in (NAT, LIT) and r[1] in (NAT, LIT):
                return f"({self.int_as_rat(e.left)} {ARITH[type(e.op)]} {self.int_as_rat(e.right)})"
        lt = self.tr(e)
        if lt[1] == LIT:
            return rat(lt[0])
        if lt[1] == NAT:
            return f"((({lt[0]}) : Nat) : Rat)"
        return self.rat_of(lt)

    # ---- main
    def tr(self, e):
        k = self.k
        if isinstance(e, ast.Constant):
            if isinstance(e.value, bool) or not isinstance(e.value, (int, float)):
                raise Untranslatable("literal " + repr(e.value))
            if isinstance(e.value, int):
                return (e.value, LIT)
            return (rat(e.value), RAT)
        if isinstance(e, ast.Name):
            if e.id in self.env:
                return self.env[e.id]
            if e.id in k.consts:
                term, needs = k.consts[e.id]
                for n in needs:
                    k.lead(n)
                return (term, RAT)
            raise Untranslatable("free name " + e.id)
        if isinstance(e, ast.Attribute):
            if ast.unparse(e) == "np.pi":
                k.lead("pi")
                return ("pi", RAT)
            if e.attr == "size" and isinstance(e.value, ast.Name):
                v = self.tr(e.value)
                if v[1] in (VEC, IDX, BVEC):
                    return (f"{v[0]}.length", NAT)
            raise Untranslatable("attribute " + ast.unparse(e))
        if isinstance(e, ast.UnaryOp):
            if isinstance(e.op, ast.USub):
                v = self.tr(e.operand)
                if v[1] == LIT:
                    return (rat(-v[0]), RAT)
                if v[1] == RAT:
                    return (f"(-{v[0]})", RAT)
                if v[1] == VEC:
                    return (f"(List.map (fun t => -t) {v[0]})", VEC)
                raise Untranslatable("unary minus on " + v[1])
            if isinstance(e.op, ast.Invert):
                v = self.tr(e.operand)
                if v[1] == BOOL:
                    return (f"(!{v[0]})", BOOL)
                if v[1] == BVEC:
                    return (f"(List.map (fun t => !t) {v[0]})", BVEC)
                raise Untranslatable("~ on " + v[1])
            if isinstance(e.op, ast.Not):
                v = self.tr(e.operand)
                if v[1] == BOOL:
                    return (f"(!{v[0]})", BOOL)
                if v[1] == NAT:       # `not ipeak`
                    return (f"decide ({v[0]} = 0)", BOOL)
                raise Untranslatable("not on " + v[1])
            raise Untranslatable("unary " + ast.dump(e.op))
        if isinstance(e, ast.BoolOp):
            vs = [self.tr(v) for v in e.values]
            if not all(v[1] == BOOL for v in vs):
                raise Untranslatable("and/or on non-booleans: " + ast.unparse(e))
            op = " || " if isinstance(e.op, ast.Or) else " && "
            return ("(" + op.join(v[0] for v in vs) + ")", BOOL)
        if isinstance(e, ast.Compare):
            return self.compare(e)
        if isinstance(e, ast.BinOp):
            return self.binop(e)
        if isinstance(e, ast.Subscript):
            return self.subscript(e)
        if isinstance(e, ast.List):
            vs = [self.tr(x) for x in e.elts]
            if vs and all(v[1] in (NAT,) or (v[1] == LIT and isinstance(v[0], int)) for v in vs) and any(v[1] == NAT for v in vs):
                return ("[" + ", ".join(self.nat_of(v) for v in vs) + "]", IDX)
            if vs and all(v[1] in (RAT, LIT) for v in vs):
                return ("[" + ", ".join(self.rat_of(v) for v in vs) + "]", VEC)
            raise Untranslatable("list literal " + ast.unparse(e))
        if isinstance(e, ast.Tuple):
            vs = [self.tr(x) for x in e.elts]
            return ("(" + ", ".join(v[0] if v[1] != LIT else rat(v[0]) for v in vs) + ")",
                    tuple(v[1] if v[1] != LIT else RAT for v in vs))
        if isinstance(e, ast.Call):
            return self.call(e)
        raise Untranslatable("expr: " + ast.unparse(e)[:120])

    def compare(self, e):
        if len(e.ops) != 1 or type(e.ops[0]) not in CMP:
            raise Untranslatable("comparison " + ast.unparse(e))
        op = CMP[type(e.ops[0])]
        l, r = self.tr(e.left), self.tr(e.comparators[0])
        if l[1] in (NAT, LIT) and r[1] in (NAT, LIT) and NAT in (l[1], r[1]):
            return (f"decide ({self.nat_of(l)} {op} {self.nat_of(r)})", BOOL)
        if l[1] in (RAT, LIT) and r[1] in (RAT, LIT):
            return (f"decide ({self.rat_of(l)} {op} {self.rat_of(r)})", BOOL)
        if l[1] == VEC and r[1] in (RAT, LIT):
            return (f"(List.map (fun t => decide (t {op} {self.rat_of(r)})) {l[0]})", BVEC)
        if l[1] in (RAT, LIT) and r[1] == VEC:
            return (f"(List.map (fun t => decide ({self.rat_of(l)} {op} t)) {r[0]})", BVEC)
        if l[1] == VEC and r[1] == VEC:
            return (f"(List.zipWith (fun a b => decide (a {op} b)) {l[0]} {r[0]})", BVEC)
        raise Untranslatable(f"comparison of {l[1]} with {r[1]}: " + ast.unparse(e))

    def binop(self, e):
        k = self.k
        if isinstance(e.op, ast.Pow):
            b = self.tr(e.left)
            x = e.right
            if isinstance(x, ast.Constant) and isinstance(x.value, int) and not isinstance(x.value, bool) and x.value >= 0:
                if b[1] in (RAT, LIT):
                    return (f"({self.rat_of(b)} ^ {x.value})", RAT)
                if b[1] == VEC:
                    return (f"(List.map (fun t => t ^ {x.value}) {b[0]})", VEC)
            if isinstance(x, ast.Name) and x.id in self.env and self.env[x.id][1] == LIT and self.env[x.id][0] >= 0 and b[1] in (RAT, LIT):
                return (f"({self.rat_of(b)} ^ {self.env[x.id][0]})", RAT)
            if k.sqrt_fn and isinstance(x, ast.Constant) and x.value == 0.5 and b[1] == RAT:
                k.lead("sqrt")
                return (f"(sqrt {b[0]})", RAT)
            raise Untranslatable("power " + ast.unparse(e))
        if isinstance(e.op, ast.Mod):
            l, r = self.tr(e.left), self.tr(e.right)
            return (f"(WS.pmod {self.rat_of(l)} {self.rat_of(r)})", RAT)
        if isinstance(e.op, (ast.BitAnd, ast.BitOr)):
            l, r = self.tr(e.left), self.tr(e.right)
            o = "&&" if isinstance(e.op, ast.BitAnd) else "||"
            if l[1] == BOOL and r[1] == BOOL:
                return (f"({l[0]} {o} {r[0]})", BOOL)
            if l[1] == BVEC and r[1] == BVEC:
                return (f"(List.zipWith (fun a b => a {o} b) {l[0]} {r[0]})", BVEC)
            raise Untranslatable("& / | on " + l[1] + ", " + r[1])
        if type(e.op) not in ARITH:
            raise Untranslatable("operator " + ast.dump(e.op))
        op = ARITH[type(e.op)]
        l, r = self.tr(e.left), self.tr(e.right)
        lt, rt = l[1], r[1]
        sc = (RAT, LIT)
        if lt in (NAT, LIT) and rt in (NAT, LIT) and NAT in (lt, rt):
            if op == "/":
                raise Untranslatable("integer division")
            return (f"({self.nat_of(l)} {op} {self.nat_of(r)})", NAT)
        if lt == LIT and rt == LIT:
            if op == "/":
                return (rat(l[0] / r[0]) if l[0] % r[0] else rat(l[0] // r[0]), RAT)
            return ({"+": l[0] + r[0], "-": l[0] - r[0], "*": l[0] * r[0]}[op], LIT)
        if NAT in (lt, rt) and (lt in sc or rt in sc):
            return (f"({self.int_as_rat(e.left)} {op} {self.int_as_rat(e.right)})", RAT)
        if lt in sc and rt in sc:
            return (f"({self.rat_of(l)} {op} {self.rat_of(r)})", RAT)
        if lt in sc and rt == VEC:
            return (f"(List.map (fun t => {self.rat_of(l)} {op} t) {r[0]})", VEC)
        if lt == VEC and rt in sc:
            return (f"(List.map (fun t => t {op} {self.rat_of(r)}) {l[0]})", VEC)
        if lt == VEC and rt == VEC:
            return (f"(List.zipWith (fun a b => a {op} b) {l[0]} {r[0]})", VEC)
        if lt in sc and rt == MAT:
            return (f"(List.map (fun row => List.map (fun t => {self.rat_of(l)} {op} t) row) {r[0]})", MAT)
        if lt == MAT and rt in sc:
            return (f"(List.map (fun row => List.map (fun t => t {op} {self.rat_of(r)}) row) {l[0]})", MAT)
        if lt == MAT and rt == VEC:   # broadcast along the last axis
            return (f"(List.map (fun row => List.zipWith (fun a b => a {op} b) row {r[0]}) {l[0]})", MAT)
        raise Untranslatable(f"arithmetic {lt} {op} {rt}: " + ast.unparse(e)[:80])

    def index(self, s):
        """integer index expression (non-negative)"""
        v = self.tr(s)
        return self.nat_of(v)

    def subscript(self, e):
        # np.where(cond)[0]
        if (isinstance(e.value, ast.Call) and _call_name(e.value) == "np.where" and len(e.value.args) == 1
                and not e.value.keywords and isinstance(e.slice, ast.Constant) and e.slice.value == 0):
            b = self.tr(e.value.args[0])
            if b[1] != BVEC:
                raise Untranslatable("np.where on " + b[1])
            return (f"(let b := {b[0]}; (List.range b.length).filter (fun i => b.getD i false))", IDX)
        base = self.tr(e.value)
        s = e.slice
        if isinstance(s, ast.Slice):
            if base[1] != VEC or s.step is not None:
                raise Untranslatable("slice " + ast.unparse(e))
            lo = ast.unparse(s.lower) if s.lower is not None else None
            hi = ast.unparse(s.upper) if s.upper is not None else None
            if (lo, hi) == ("1", None):
                return (f"(List.drop 1 {base[0]})", VEC)
            if (lo, hi) == (None, "-1"):
                return (f"(List.dropLast {base[0]})", VEC)
            raise Untranslatable("slice " + ast.unparse(e))
        neg1 = isinstance(s, ast.UnaryOp) and isinstance(s.op, ast.USub) and isinstance(s.operand, ast.Constant) and s.operand.value == 1
        if base[1] == VEC:
            if neg1:
                return (f"(WS.lastD {base[0]})", RAT)
            iv = self.tr(s)
            if iv[1] == IDX:
                return (f"(List.map (fun i => WS.getR {base[0]} i) {iv[0]})", VEC)
            return (f"(WS.getR {base[0]} {self.nat_of(iv)})", RAT)
        if base[1] == IDX:
            if neg1:
                return (f"({base[0]}.getLastD 0)", NAT)
            return (f"({base[0]}.getD {self.index(s)} 0)", NAT)
        raise Untranslatable("subscript of " + str(base[1]) + ": " + ast.unparse(e))

    def call(self, e):
        k = self.k
        fn = _call_name(e)
        kw = {q.arg: q.value for q in e.keywords}
        if fn in ("np.float32", "float") and len(e.args) == 1 and not kw:
            v = self.tr(e.args[0])
            return (self.rat_of(v), RAT) if v[1] in (RAT, LIT) else v
        if fn in ("abs", "np.abs", "np.absolute") and len(e.args) == 1 and not kw:
            v = self.tr(e.args[0])
            if v[1] in (RAT, LIT):
                return (f"(WS.absR {self.rat_of(v)})", RAT)
            if v[1] == VEC:
                return (f"(List.map (fun t => WS.absR t) {v[0]})", VEC)
            raise Untranslatable("abs of " + v[1])
        if fn in ("np.minimum", "np.maximum", "min", "max") and len(e.args) == 2 and not kw:
            a, b = self.tr(e.args[0]), self.tr(e.args[1])
            f = "WS.minR" if fn in ("np.minimum", "min") else "WS.maxR"
            return (f"({f} {self.rat_of(a)} {self.rat_of(b)})", RAT)
        if fn == "np.mod" and len(e.args) == 2 and not kw:
            a, b = self.tr(e.args[0]), self.tr(e.args[1])
            return (f"(WS.pmod {self.rat_of(a)} {self.rat_of(b)})", RAT)
        if fn in ("sum", "np.sum") and len(e.args) == 1 and not kw:
            v = self.tr(e.args[0])
            if v[1] == VEC:
                return (f"(List.sum {v[0]})", RAT)
            raise Untranslatable("sum of " + v[1])
        if fn == "np.squeeze" and len(e.args) == 1 and not kw:
            v = self.tr(e.args[0])
            if v[1] == MAT:
                return (f"(List.flatten {v[0]})", VEC)
            raise Untranslatable("np.squeeze of " + v[1])
        if fn == "len" and len(e.args) == 1 and not kw:
            v = self.tr(e.args[0])
            if v[1] in (VEC, IDX, BVEC):
                return (f"{v[0]}.length", NAT)
            raise Untranslatable("len of " + v[1])
        if isinstance(e.func, ast.Attribute) and e.func.attr == "sum":
            v = self.tr(e.func.value)
            ax = None
            if len(e.args) == 1 and not kw:
                ax = e.args[0]
            elif not e.args and list(kw) == ["axis"]:
                ax = kw["axis"]
            elif e.args or kw:
                raise Untranslatable("sum arguments " + ast.unparse(e))
            if ax is not None and not (isinstance(ax, ast.Constant) and ax.value in (0, 1)):
                raise Untranslatable("sum axis " + ast.unparse(e))
            axv = None if ax is None else ax.value
            if v[1] == VEC and axv in (None, 0):
                return (f"(List.sum {v[0]})", RAT)
            if v[1] == MAT and axv == 1:
                return (f"(List.map List.sum {v[0]})", VEC)
            raise Untranslatable("sum: " + ast.unparse(e))
        if fn in ("np.cos", "np.sin", "np.exp") and len(e.args) == 1 and not kw:
            return self.table(e)
        if fn in k.calls:
            return self.kernel_call(e, k.calls[fn])
        raise Untranslatable("call " + ast.unparse(e)[:100])

    # ---- oracle tables
    def table(self, e):
        k = self.k
        if id(e) in k.table_cache:
            return k.table_cache[id(e)]
        chain = _call_name(e) + "(·)"
        arg = e.args[0]
        if _call_name(e) in ("np.cos", "np.sin"):
            if not (_call_name(arg) == "np.radians" and len(arg.args) == 1 and not arg.keywords):
                raise Untranslatable("trigonometric call is not np.cos/np.sin(np.radians(·)): " + ast.unparse(e))
            chain = _call_name(e) + "(np.radians(·))"
            arg = arg.args[0]
        if len(k.tables) >= len(k.table_names):
            raise Untranslatable("unexpected transcendental call " + ast.unparse(e))
        name = k.table_names[len(k.tables)]
        ty = self.tr(arg)[1]            # also checks that the argument is inside the grammar
        if ty not in (VEC, RAT):
            raise Untranslatable("table argument of type " + str(ty))
        # the argument expression as a scalar function of its free names (vectors become their elements)
        free = []
        for n in sorted((n for n in ast.walk(arg) if isinstance(n, ast.Name)), key=lambda n: (n.lineno, n.col_offset)):
            if n.id in self.env and n.id not in free:
                free.append(n.id)
        for n in free:
            if self.env[n][1] not in (RAT, VEC):
                raise Untranslatable(f"table argument depends on {n} : {self.env[n][1]}")
        import copy

        k3 = copy.copy(k)              # own bookkeeping: the argument function has its own leading parameters
        k3.used_lead, k3.tables, k3.extra, k3.table_cache, k3.table_names = [], [], [], {}, []
        sub = Tr(k3, {n: (n, RAT) for n in free})
        body = sub.rat_of(sub.tr(arg))
        k.extra.append((f"{k.lean_name}_{name}_fn", f"def {k.lean_name}_{name}_fn : String := \"{chain}\""))
        k.extra.append((f"{k.lean_name}_{name}_arg",
                        f"def {k.lean_name}_{name}_arg {k3.lead_params()}({' '.join(free)} : Rat) : Rat := {body}"))
        k.tables.append((name, ty, chain, arg))
        k.table_cache[id(e)] = (name, ty)
        return (name, ty)

    def kernel_call(self, e, sig):
        k = self.k
        names = list(sig.argtypes)
        given = {}
        if len(e.args) > len(names):
            raise Untranslatable("call arity " + ast.unparse(e))
        for n, a in zip(names, e.args):
            given[n] = a
        for q in e.keywords:
            if q.arg not in names or q.arg in given:
                raise Untranslatable("call keyword " + ast.unparse(e))
            given[q.arg] = q.value
        out = []
        for n in names:
            want = sig.argtypes[n]
            if n in given:
                v = self.tr(given[n])
                if want == RAT:
                    out.append(self.rat_of(v))
                elif want == ORAT and v[1] in (RAT, LIT):
                    out.append(f"(some {self.rat_of(v)})")
                elif v[1] == want:
                    out.append(v[0])
                else:
                    raise Untranslatable(f"call argument {n}: {v[1]} for {want}")
            elif n in sig.defaults:
                out.append(sig.defaults[n])
            else:
                raise Untranslatable("missing argument " + n)
        for p in sig.lead:
            k.lead(p)
        # the callee's oracle tables become tables of the caller (same names)
        for (tn, tt, ch, ar) in sig.tables:
            if tn not in [t[0] for t in k.tables]:
                k.tables.append((tn, tt, ch, ar))
        args = list(sig.lead) + out + [t[0] for t in sig.tables]
        return ("(" + " ".join([sig.lean_name] + args) + ")", sig.ret)


# ------------------------------------------------------------------------------------------------
# statements
# ------------------------------------------------------------------------------------------------
class Stop(Exception):
    pass


def assigned(stmts):
    out = []
    for st in stmts:
        if isinstance(st, ast.Assign) and len(st.targets) == 1 and isinstance(st.targets[0], ast.Name):
            n = [st.targets[0].id]
        elif isinstance(st, ast.AugAssign) and isinstance(st.target, ast.Name):
            n = [st.target.id]
        elif isinstance(st, ast.If):
            n = assigned(st.body) + assigned(st.orelse)
        else:
            n = []
        for x in n:
            if x not in out:
                out.append(x)
    return out


def returns(stmts):
    """every path through `stmts` ends in a return"""
    if not stmts:
        return False
    last = stmts[-1]
    if isinstance(last, ast.Return):
        return True
    if isinstance(last, ast.If):
        return returns(last.body) and returns(last.orelse)
    return False


def none_test(test, env):
    """`x is not None` / `x is not None and REST` on an optional argument → (x, REST or None)"""
    def isnn(t):
        return (isinstance(t, ast.Compare) and len(t.ops) == 1 and isinstance(t.ops[0], ast.IsNot)
                and isinstance(t.left, ast.Name) and isinstance(t.comparators[0], ast.Constant)
                and t.comparators[0].value is None and t.left.id in env and env[t.left.id][1] in (OVEC, ORAT))
    if isnn(test):
        return test.left.id, None
    if isinstance(test, ast.BoolOp) and isinstance(test.op, ast.And) and isnn(test.values[0]):
        rest = test.values[1] if len(test.values) == 2 else ast.BoolOp(op=ast.And(), values=test.values[1:])
        return test.values[0].left.id, rest
    return None


class Block:
    """statement list → Lean term; `tail` is the term the block ends with when it does not return
    (the name of the live-out variable of an assigning `if`, or the requested result of a slice)."""

    def __init__(self, k, atan2=None, strip_sqrt=None):
        self.k = k
        self.atan2 = atan2          # 'vec': stop at `v = np.arctan2(A, B)` and return (A, B)
        self.strip_sqrt = strip_sqrt  # literal factor c: the return must be exactly `c * np.sqrt(E)`; E is returned

    def wrap(self, term):
        return f"some {term}" if self.k.option else term

    def block(self, stmts, env, ind, tail=None):
        k = self.k
        env = dict(env)
        pad = " " * ind
        out = []
        for i, st in enumerate(stmts):
            tr = Tr(k, env)
            if isinstance(st, ast.Assign):
                if len(st.targets) != 1:
                    raise Untranslatable("chained assignment")
                tg = st.targets[0]
                if self.atan2 and _call_name(st.value) == "np.arctan2":
                    if not (isinstance(tg, ast.Name) and len(st.value.args) == 2 and not st.value.keywords):
                        raise Untranslatable("arctan2 form")
                    a, b = tr.tr(st.value.args[0]), tr.tr(st.value.args[1])
                    out.append(pad + self.wrap(f"({tr.rat_of(a)}, {tr.rat_of(b)})"))
                    return "\n".join(out)
                if isinstance(tg, ast.Name):
                    v = tr.tr(st.value)
                    if v[1] == LIT:
                        v = (rat(v[0]), RAT)
                    out.append(f"{pad}let {tg.id} := {v[0]}")
                    env[tg.id] = (tg.id, v[1])
                    continue
                if isinstance(tg, ast.Tuple) and all(isinstance(x, ast.Name) for x in tg.elts):
                    v = tr.tr(st.value)
                    if not (isinstance(v[1], tuple) and len(v[1]) == len(tg.elts) == 2):
                        raise Untranslatable("tuple assignment " + ast.unparse(st)[:80])
                    tmp = "_".join(x.id for x in tg.elts)
                    out.append(f"{pad}let {tmp} := {v[0]}")
                    for j, x in enumerate(tg.elts):
                        out.append(f"{pad}let {x.id} := {tmp}.{j + 1}")
                        env[x.id] = (x.id, v[1][j])
                    continue
                raise Untranslatable("assignment target " + ast.unparse(tg))
            if isinstance(st, ast.AugAssign):
                if not (isinstance(st.target, ast.Name) and st.target.id in env and type(st.op) in ARITH):
                    raise Untranslatable("augmented assignment " + ast.unparse(st))
                v = tr.tr(ast.BinOp(left=ast.Name(id=st.target.id, ctx=ast.Load()), op=st.op, right=st.value))
                out.append(f"{pad}let {st.target.id} := {v[0]}")
                env[st.target.id] = (st.target.id, v[1])
                continue
            if isinstance(st, ast.For):
                it = st.iter
                if not (isinstance(st.target, ast.Name) and _call_name(it) == "range" and len(it.args) == 2 and not st.orelse
                        and all(isinstance(a, ast.Constant) and isinstance(a.value, int) for a in it.args)):
                    raise Untranslatable("loop " + ast.unparse(st)[:60])
                lo, hi = it.args[0].value, it.args[1].value
                if hi - lo > 64:
                    raise Untranslatable("loop too long to unroll")
                for iv in range(lo, hi):
                    e2 = dict(env)
                    e2[st.target.id] = (iv, LIT)
                    # the body may only assign (no control flow); unrolled with the loop variable as a literal
                    for b in st.body:
                        if not isinstance(b, (ast.Assign, ast.AugAssign)):
                            raise Untranslatable("loop body " + ast.unparse(b)[:60])
                    txt = self.block(st.body, e2, ind, tail="()")
                    lines = txt.split("\n")[:-1]
                    out += lines
                    for n in assigned(st.body):
                        # type after the assignment: recompute through a scratch translation
                        env[n] = (n, self._type_after(st.body, e2, n))
                continue
            if isinstance(st, ast.If):
                rest = stmts[i + 1:]
                if returns([st]):
                    if rest:
                        raise Untranslatable("statements after a returning if")
                    out.append(self.ifexpr(st, env, ind, None))
                    return "\n".join(out)
                if returns(st.body) and not st.orelse:
                    # `if c: return X` followed by the rest = if/else
                    st2 = ast.If(test=st.test, body=st.body, orelse=rest)
                    if not returns(rest) and tail is None:
                        raise Untranslatable("fall-through after conditional return")
                    out.append(self.ifexpr(st2, env, ind, tail))
                    return "\n".join(out)
                # live-out: assigned on both paths, or re-assigned on one path and already defined before
                live = [n for n in assigned([st]) if (n in assigned(st.body) and n in assigned(st.orelse)) or n in env]
                if len(live) != 1:
                    raise Untranslatable(f"conditional assigning {live}")
                n = live[0]
                ty = self._if_type(st, env, n)
                out.append(f"{pad}let {n} :=\n" + self.ifexpr(st, env, ind + 2, n))
                env[n] = (n, ty)
                continue
            if isinstance(st, ast.Return):
                if i != len(stmts) - 1:
                    raise Untranslatable("statements after return")
                if _is_nan(st.value):
                    out.append(pad + "none")
                    return "\n".join(out)
                val = st.value
                if self.strip_sqrt is not None:
                    if not (isinstance(val, ast.BinOp) and isinstance(val.op, ast.Mult) and isinstance(val.left, ast.Constant)
                            and val.left.value == self.strip_sqrt and _call_name(val.right) == "np.sqrt"
                            and len(val.right.args) == 1 and not val.right.keywords):
                        raise Untranslatable(f"return is not `{self.strip_sqrt} * np.sqrt(·)`: " + ast.unparse(val))
                    val = val.right.args[0]
                v = tr.tr(val)
                out.append(pad + self.wrap(rat(v[0]) if v[1] == LIT else v[0]))
                self.k.ret = RAT if v[1] == LIT else v[1]
                return "\n".join(out)
            raise Untranslatable("statement " + ast.unparse(st)[:80])
        if tail is None:
            raise Untranslatable("block without return")
        out.append(pad + tail)
        return "\n".join(out)

    def _type_after(self, stmts, env, name):
        env = dict(env)
        for st in stmts:
            tr = Tr(self._scratch(), env)
            if isinstance(st, ast.Assign) and isinstance(st.targets[0], ast.Name):
                t = tr.tr(st.value)[1]
                env[st.targets[0].id] = (st.targets[0].id, RAT if t == LIT else t)
            elif isinstance(st, ast.AugAssign):
                t = tr.tr(ast.BinOp(left=ast.Name(id=st.target.id, ctx=ast.Load()), op=st.op, right=st.value))[1]
                env[st.target.id] = (st.target.id, t)
            elif isinstance(st, ast.If):
                for n in assigned([st]):
                    try:
                        env[n] = (n, self._if_type(st, env, n))
                    except Untranslatable:
                        pass
        return env[name][1]

    def _scratch(self):
        """a copy of the kernel context whose side tables are thrown away (type inference only)"""
        import copy

        k2 = copy.copy(self.k)
        k2.tables = list(self.k.tables)
        k2.extra = []
        k2.used_lead = list(self.k.used_lead)
        k2.table_cache = {}
        return k2

    def _if_type(self, st, env, n):
        e2 = dict(env)
        nt = none_test(st.test, env)
        if nt:
            e2[nt[0]] = (nt[0], VEC if env[nt[0]][1] == OVEC else RAT)
        tys = set()
        if n in assigned(st.body):
            tys.add(self._type_after(st.body, e2, n))
        if n in assigned(st.orelse):
            tys.add(self._type_after(st.orelse, env, n))
        if n in env:
            tys.add(env[n][1])
        if len(tys) != 1:
            raise Untranslatable(f"{n} has types {sorted(map(str, tys))} across branches")
        return tys.pop()

    def ifexpr(self, st, env, ind, tail):
        """if/elif/else as a Lean term (both branches are blocks ending in a return or in `tail`)"""
        pad = " " * ind
        nt = none_test(st.test, env)
        els = self.block(st.orelse, env, ind + 4, tail) if st.orelse else " " * (ind + 4) + tail
        if nt:
            name, rest = nt
            e2 = dict(env)
            e2[name] = (name, VEC if env[name][1] == OVEC else RAT)
            if rest is None:
                thn = self.block(st.body, e2, ind + 4, tail)
                return f"{pad}(match {name} with\n{pad}  | none =>\n{els}\n{pad}  | some {name} =>\n{thn})"
            c = Tr(self.k, e2).tr(rest)
            if c[1] != BOOL:
                raise Untranslatable("condition " + ast.unparse(rest))
            thn = self.block(st.body, e2, ind + 6, tail)
            els2 = self.block(st.orelse, e2, ind + 6, tail) if st.orelse else " " * (ind + 6) + tail
            return (f"{pad}(match {name} with\n{pad}  | none =>\n{els}\n{pad}  | some {name} =>\n"
                    f"{pad}    if {c[0]} then\n{thn}\n{pad}    else\n{els2})")
        t = st.test
        # `if not ipeak` on an integer index: the Prop `ipeak = 0` (same shape as the models)
        if isinstance(t, ast.UnaryOp) and isinstance(t.op, ast.Not) and isinstance(t.operand, ast.Name) \
                and t.operand.id in env and env[t.operand.id][1] == NAT:
            cond = f"{t.operand.id} = 0"
        else:
            c = Tr(self.k, env).tr(t)
            if c[1] != BOOL:
                raise Untranslatable("condition " + ast.unparse(t))
            cond = c[0]
            if cond.startswith("decide (") and cond.endswith(")") and cond.count("decide") == 1:
                cond = cond[len("decide ("):-1]
        thn = self.block(st.body, env, ind + 4, tail)
        return f"{pad}(if {cond} then\n{thn}\n{pad}  else\n{els})"


def post_atan2(k, angle="a"):
    """the statements after `v = np.arctan2(…)` (same statement list) as a function of the oracle angle"""
    for node in ast.walk(k.fn):
        for fld in ("body", "orelse"):
            lst = getattr(node, fld, None)
            if not isinstance(lst, list):
                continue
            for i, st in enumerate(lst):
                if isinstance(st, ast.Assign) and _call_name(st.value) == "np.arctan2" and isinstance(st.targets[0], ast.Name):
                    opt, k.option = k.option, False
                    try:
                        body = Block(k).block(lst[i + 1:], {st.targets[0].id: (angle, RAT)}, 2)
                    finally:
                        k.option = opt
                    return body
    raise Untranslatable(f"{k.qualname}: no arctan2 assignment")


def define(k, name, params, ret, body, doc):
    return f"/-- {doc} -/\ndef {name} {k.lead_params()}{params} : {ret} :=\n{body}\n"


# ------------------------------------------------------------------------------------------------
# kernels
# ------------------------------------------------------------------------------------------------
def k_hs():
    k = Kernel(NPSTATS, "hs", "npHs", {"spectrum": MAT, "freq": VEC, "dir": OVEC, "tail": BOOL},
               defaults={"dir": "None", "tail": "True"})
    body = Block(k, strip_sqrt=4.0).block(k.stmts(), k.env0(), 2)
    return [("npHsFactor", "/-- `hs = npHsFactor * sqrt(npHsE)` -/\ndef npHsFactor : Rat := " + rat(4.0) + "\n"),
            ("npHsE", define(k, "npHsE", k.params(), "Rat", body,
                             "radicand of `npstats.hs` (the final `4.0 * np.sqrt(·)` stripped); a 1-D spectrum is an `nf × 1` matrix"))]


_SIGS = {}


def k_mom1():
    # the default of `theta` is not pinned here: it is emitted as `npMom1_theta_default` and bridged (C01.gen_mom1_tables)
    k = Kernel(NPSTATS, "mom1", "npMom1", {"spectrum": MAT, "dir": VEC, "theta": RAT}, tables=("cp", "sp"))
    body = Block(k).block(k.stmts(), k.env0(), 2)
    if k.ret != (VEC, VEC) or [t[0] for t in k.tables] != ["cp", "sp"]:
        raise Untranslatable("mom1: result shape")
    _SIGS["mom1"] = KernelSig("npMom1", k.lead_args(), k.argtypes, {"theta": "npMom1_theta_default"}, list(k.tables), (VEC, VEC))
    out = [("npMom1_theta_default", "def npMom1_theta_default : Rat := " + rat(k.defaults["theta"].value) + "\n")]
    out += [(n, t + "\n") for n, t in k.extra]
    out.append(("npMom1", define(k, "npMom1", k.params() + " " + k.table_params(), "List Rat × List Rat", body,
                                 "`npstats.mom1`; `cp`,`sp` = oracle tables `npMom1_cp_fn`/`npMom1_sp_fn` of `npMom1_*_arg theta dir_j`")))
    return out


def k_dm():
    if "mom1" not in _SIGS:
        raise Untranslatable("dm: mom1 was not translated")
    k = Kernel(NPSTATS, "dm", "npDm", {"spectrum": MAT, "dir": VEC}, consts={"R2D": (utils_const("R2D"), ["pi"])},
               calls={"mom1": _SIGS["mom1"]})
    body = Block(k, atan2="vec").block(k.stmts(), k.env0(), 2)
    vec = define(k, "npDmVec", k.params() + " " + k.table_params(), "Rat × Rat", body,
                 "`npstats.dm`: the arguments `(y, x)` of `np.arctan2`")
    k2 = Kernel(NPSTATS, "dm", "npDm", {"spectrum": MAT, "dir": VEC}, consts={"R2D": (utils_const("R2D"), ["pi"])})
    post = post_atan2(k2)
    return [("npDmVec", vec), ("npDmPost", define(k2, "npDmPost", "(a : Rat)", "Rat", post,
                                                  "`npstats.dm`: the arithmetic after `np.arctan2` (`a` = its value, radians)"))]


def k_dpm():
    c = {"R2D": (utils_const("R2D"), ["pi"])}
    k = Kernel(NPSTATS, "dpm", "npDpm", {"ipeak": NAT, "momsin": VEC, "momcos": VEC}, consts=c)
    body = Block(k, atan2="vec").block(k.stmts(), k.env0(), 2)
    k2 = Kernel(NPSTATS, "dpm", "npDpm", {"ipeak": NAT, "momsin": VEC, "momcos": VEC}, consts=c)
    post = post_atan2(k2)
    return [("npDpmVec", define(k, "npDpmVec", k.params(), "Option (Rat × Rat)", body,
                                "`npstats.dpm`: NaN rule and the arguments `(y, x)` of `np.arctan2`")),
            ("npDpmPost", define(k2, "npDpmPost", "(a : Rat)", "Rat", post, "`npstats.dpm`: the arithmetic after `np.arctan2`"))]


def k_dp():
    k = Kernel(NPSTATS, "dp", "npDp", {"ipeak": NAT, "dir": VEC})
    body = Block(k).block(k.stmts(), k.env0(), 2)
    return [("npDp", define(k, "npDp", k.params(), "Rat", body, "`npstats.dp`"))]


def k_dpspr():
    k = Kernel(NPSTATS, "dpspr", "npDpspr", {"ipeak": NAT, "fdspr": VEC})
    body = Block(k).block(k.stmts(), k.env0(), 2)
    return [("npDpspr", define(k, "npDpspr", k.params(), "Option Rat", body, "`npstats.dpspr` (NaN rule)"))]


def k_tp():
    k = Kernel(NPSTATS, "tp", "npTp", {"ipeak": NAT, "spectrum": VEC, "freq": VEC})
    body = Block(k).block(k.stmts(), k.env0(), 2)
    return [("npTp", define(k, "npTp", k.params(), "Option Rat", body, "`npstats.tp` through the vector grammar"))]


def k_alpha():
    sc = scipy_constants(NPSTATS)
    if not {"pi", "g"} <= sc:
        raise Untranslatable("npstats: pi, g are not imported from scipy.constants")
    consts = {"pi": ("pi", ["pi"]), "g": ("g", ["g"])}
    at = {"spectrum": VEC, "freq": VEC, "fp": RAT}
    # (a) the positions: everything up to (excluding) the first statement that does not assign `pos`
    k1 = Kernel(NPSTATS, "alpha", "npAlpha", at, consts=consts)
    st = k1.stmts()
    n = 0
    while n < len(st) and assigned([st[n]]) == ["pos"]:
        n += 1
    if n == 0:
        raise Untranslatable("alpha: no `pos` prefix")
    pos = Block(k1).block(st[:n], k1.env0(), 2, tail="pos")
    # (b) the whole function
    k = Kernel(NPSTATS, "alpha", "npAlpha", at, consts=consts, tables=("ex",))
    body = Block(k).block(st, k.env0(), 2)
    out = [("npAlphaPos", define(k1, "npAlphaPos", k1.params(["freq", "fp"]), "List Nat", pos,
                                 "`npstats.alpha`: the tail-fit positions `pos`"))]
    out += [(nm, t + "\n") for nm, t in k.extra]
    out.append(("npAlpha", define(k, "npAlpha", k.params() + " " + k.table_params(), "Rat", body,
                                  "`npstats.alpha`; `ex` = oracle table `npAlpha_ex_fn` of `npAlpha_ex_arg fp f_i` over `f = freq[pos]`")))
    return out


def k_wavenuma():
    at = {"freq": RAT, "water_depth": RAT}
    k = Kernel(UTILS, "wavenuma", "wavenuma", at, sqrt_fn=True)
    st = k.stmts()
    body = Block(k).block(st, k.env0(), 2)
    _SIGS["wavenuma"] = KernelSig("wavenuma", k.lead_args(), at, {}, [], RAT)
    # slices: k0h as a function of (freq, depth); the polynomial `a` as a function of k0h
    names = [assigned([s]) for s in st]
    if not ("k0h" in sum(names, []) and "a" in sum(names, [])):
        raise Untranslatable("wavenuma: k0h / a not found")
    i_k0h = max(i for i, n in enumerate(names) if n == ["k0h"])
    i_ret = len(st) - 1
    ka = Kernel(UTILS, "wavenuma", "wavenuma", at)
    k0h = Block(ka).block(st[:i_k0h + 1], ka.env0(), 2, tail="k0h")
    kb = Kernel(UTILS, "wavenuma", "wavenuma", at)
    poly = Block(kb).block(st[i_k0h + 1:i_ret], {"k0h": ("k0h", RAT)}, 2, tail="a")
    return [("wavenumaK0h", define(ka, "wavenumaK0h", ka.params(), "Rat", k0h, "`utils.wavenuma`: `k0h`")),
            ("wavenumaA", define(kb, "wavenumaA", "(k0h : Rat)", "Rat", poly, "`utils.wavenuma`: the polynomial `a` after the loop")),
            ("wavenuma", define(k, "wavenuma", k.params(), "Rat", body,
                                "`utils.wavenuma` on a scalar frequency; `sqrt` = oracle function for `** 0.5`"))]


def _k_deep(pyname):
    def f():
        if "wavenuma" not in _SIGS:
            raise Untranslatable(pyname + ": wavenuma was not translated")
        at = {"freq": RAT, "depth": ORAT}
        k = Kernel(UTILS, pyname, pyname, at, defaults={"depth": "None"}, calls={"wavenuma": _SIGS["wavenuma"]})
        body = Block(k).block(k.stmts(), k.env0(), 2)
        return [(pyname, define(k, pyname, k.params(), "Rat", body, f"`utils.{pyname}` on a scalar frequency"))]
    f.__name__ = "k_" + pyname
    return f


def k_to_nautical():
    k = Kernel(UTILS, "to_nautical", "toNautical", {"ang": RAT})
    body = Block(k).block(k.stmts(), k.env0(), 2)
    return [("toNautical", define(k, "toNautical", k.params(), "Rat", body, "`utils.to_nautical`"))]


def k_dfp_swell():
    sc = scipy_constants(TRACKING)
    if not {"pi", "g"} <= sc:
        raise Untranslatable("tracking: pi, g are not imported from scipy.constants")
    k = Kernel(TRACKING, "dfp_swell", "dfpSwell", {"dt": RAT, "distance": RAT}, consts={"pi": ("pi", ["pi"]), "g": ("g", ["g"])})
    body = Block(k).block(k.stmts(), k.env0(), 2)
    d = k.defaults.get("distance")
    if not (isinstance(d, ast.Constant) and isinstance(d.value, (int, float))):
        raise Untranslatable("dfp_swell: default distance")
    return [("dfpSwell_distance_default", "def dfpSwell_distance_default : Rat := " + rat(d.value) + "\n"),
            ("dfpSwell", define(k, "dfpSwell", k.params(), "Rat", body, "`tracking.dfp_swell`"))]


# ------------------------------------------------------------------------------------------------
# match_consecutive_partitions: the thresholded distance matrix, entry by entry
# ------------------------------------------------------------------------------------------------
class Entry:
    """Entry `[c, p]` (c = current partition, p = previous partition) of the `(P, P)` arrays built in
    `match_consecutive_partitions`.  Structural shapes accepted:

    * `np.repeat(X[:, 1].reshape((-1, 1)), X.shape[0], axis=1) - np.repeat(X[:, 0].reshape((1, -1)), X.shape[0], axis=0)`
      → `X_cur - X_prev`  (X ∈ {fp, dpm});
    * `np.array([a] + [b] * (X.shape[0] - 1))` → `if p = 0 then a else b`; `np.array([a] * X.shape[0])` → `a`
      (a 1-D vector against a `(P, P)` matrix broadcasts along the LAST axis = the previous partition);
    * `np.abs`, `np.maximum`, `np.logical_and`, `+ - * / %`, comparisons, literals, the scalar arguments;
    * `np.where(cond, value, 999)` → `if cond then some value else none` (the sentinel is emitted as a constant).
    """

    def __init__(self, scalars):
        self.env = {s: s for s in scalars}
        self.sentinel = None

    @staticmethod
    def _outer(e):
        if not (isinstance(e, ast.BinOp) and isinstance(e.op, ast.Sub)):
            return None
        import re

        l, r = ast.unparse(e.left), ast.unparse(e.right)
        m = re.fullmatch(r"np\.repeat\((\w+)\[:, 1\]\.reshape\(\(-1, 1\)\), (\w+)\.shape\[0\], axis=1\)", l)
        n = re.fullmatch(r"np\.repeat\((\w+)\[:, 0\]\.reshape\(\(1, -1\)\), (\w+)\.shape\[0\], axis=0\)", r)
        if m and n and len({m.group(1), m.group(2), n.group(1), n.group(2)}) == 1:
            return m.group(1)
        return None

    def tr(self, e):
        o = self._outer(e)
        if o in ("fp", "dpm"):
            return f"({o}_cur - {o}_prev)"
        if isinstance(e, ast.Name):
            if e.id in self.env:
                return self.env[e.id]
            raise Untranslatable("match: free name " + e.id)
        if isinstance(e, ast.Constant) and isinstance(e.value, (int, float)) and not isinstance(e.value, bool):
            return rat(e.value)
        if isinstance(e, ast.UnaryOp) and isinstance(e.op, ast.USub):
            return f"(-{self.tr(e.operand)})"
        if isinstance(e, ast.BinOp):
            if type(e.op) in ARITH:
                return f"({self.tr(e.left)} {ARITH[type(e.op)]} {self.tr(e.right)})"
            if isinstance(e.op, ast.Mod):
                return f"(WS.pmod {self.tr(e.left)} {self.tr(e.right)})"
            raise Untranslatable("match: operator " + ast.dump(e.op))
        if isinstance(e, ast.Call):
            fn = _call_name(e)
            if fn == "np.abs" and len(e.args) == 1:
                return f"(WS.absR {self.tr(e.args[0])})"
            if fn == "np.maximum" and len(e.args) == 2:
                return f"(WS.maxR {self.tr(e.args[0])} {self.tr(e.args[1])})"
            if fn == "np.array" and len(e.args) == 1 and not e.keywords:
                return self.thrvec(e.args[0])
        raise Untranslatable("match: expr " + ast.unparse(e)[:100])

    def thrvec(self, e):
        import re

        def one(x):
            if isinstance(x, ast.List) and len(x.elts) == 1:
                return self.tr(x.elts[0])
            raise Untranslatable("match: threshold element " + ast.unparse(x))
        if isinstance(e, ast.BinOp) and isinstance(e.op, ast.Add):
            r = e.right
            if (isinstance(r, ast.BinOp) and isinstance(r.op, ast.Mult)
                    and re.fullmatch(r"\((fp|dpm)\.shape\[0\] - 1\)|(fp|dpm)\.shape\[0\] - 1", ast.unparse(r.right))):
                return f"(if p = 0 then {one(e.left)} else {one(r.left)})"
        if isinstance(e, ast.BinOp) and isinstance(e.op, ast.Mult) and re.fullmatch(r"(fp|dpm)\.shape\[0\]", ast.unparse(e.right)):
            return one(e.left)
        raise Untranslatable("match: threshold vector " + ast.unparse(e))

    def cond(self, e):
        if _call_name(e) == "np.logical_and" and len(e.args) == 2:
            return f"({self.cond(e.args[0])} && {self.cond(e.args[1])})"
        if isinstance(e, ast.Compare) and len(e.ops) == 1 and type(e.ops[0]) in CMP:
            return f"decide ({self.tr(e.left)} {CMP[type(e.ops[0])]} {self.tr(e.comparators[0])})"
        raise Untranslatable("match: condition " + ast.unparse(e)[:100])


def k_match_dist():
    fn = find_func(TRACKING, "match_consecutive_partitions")
    args = [a.arg for a in fn.args.args]
    if args != ["fp", "dpm", "dfp_sea_max", "dfp_swell_max", "ddpm_sea_max", "ddpm_swell_max"]:
        raise Untranslatable("match_consecutive_partitions: signature " + str(args))
    en = Entry(args[2:] + ["fp_cur", "fp_prev", "dpm_cur", "dpm_prev"])
    lines = []
    want = ["ddpm", "dfp", "ddpm_max", "dfp_max", "dfp_min", "partition_distance"]
    seen = []
    for st in body_stmts(fn):
        if isinstance(st, ast.Assign) and len(st.targets) == 1 and isinstance(st.targets[0], ast.Name) and st.targets[0].id in want:
            nm = st.targets[0].id
            if nm in seen:
                raise Untranslatable(f"match: {nm} assigned twice")
            if nm == "partition_distance":
                v = st.value
                if not (_call_name(v) == "np.where" and len(v.args) == 3 and isinstance(v.args[2], ast.Constant)):
                    raise Untranslatable("match: partition_distance is not np.where(cond, value, <literal>)")
                lines.append(f"  if {en.cond(v.args[0])} then some {en.tr(v.args[1])} else none")
                en.sentinel = v.args[2].value
            else:
                lines.append(f"  let {nm} := {en.tr(st.value)}")
                en.env[nm] = nm
            seen.append(nm)
    if seen != want:
        raise Untranslatable(f"match: assignments found {seen}, expected {want}")
    # the sentinel must be what the candidate filter tests (`d != 999`)
    tests = [n for n in ast.walk(fn) if isinstance(n, ast.Compare) and isinstance(n.left, ast.Name) and n.left.id == "d"]
    if not (len(tests) == 1 and isinstance(tests[0].ops[0], ast.NotEq) and isinstance(tests[0].comparators[0], ast.Constant)
            and tests[0].comparators[0].value == en.sentinel):
        raise Untranslatable("match: candidate filter does not test `d != <sentinel>`")
    hdr = ("/-- entry `[c, p]` of `partition_distance` in `tracking.match_consecutive_partitions` for finite operands\n"
           "    (`none` = the sentinel); threshold vectors broadcast along the last axis (`p` = previous partition) -/\n"
           "def matchDist (dfp_sea_max dfp_swell_max ddpm_sea_max ddpm_swell_max : Rat) (p : Nat)\n"
           "    (fp_cur dpm_cur fp_prev dpm_prev : Rat) : Option Rat :=\n")
    return [("matchDist_sentinel", "def matchDist_sentinel : Rat := " + rat(en.sentinel) + "\n"),
            ("matchDist", hdr + "\n".join(lines) + "\n")]


NP_KERNELS = [k_hs, k_mom1, k_dm, k_dpm, k_dp, k_dpspr, k_tp, k_alpha, k_wavenuma, _k_deep("celerity"), _k_deep("wavelen"),
              k_to_nautical, k_dfp_swell, k_match_dist]

HEADER = ("import WsVerif.Gen.Prelude\n"
          "/-! GENERATED by harness/translate_np.py from the repository source (vector grammar) — do not edit.\n"
          "    Bridged to the models in Props/C01.lean, C02.lean, C19.lean (\"T-tier: regenerated kernels\"). -/\n"
          "set_option linter.unusedVariables false\n"
          "namespace WS.Gen\n")


def generate_np(gen_dir):
    status = {}
    _SIGS.clear()
    text = HEADER
    for kf in NP_KERNELS:
        try:
            defs = kf()
            for nm, src in defs:
                text += src + "\n"
                status["np_" + nm] = "ok"
        except Exception as e:  # Untranslatable, or a malformed tree: the tie is broken, the bridge will not build
            msg = f"{type(e).__name__}: {e}".replace("\n", " ")[:300]
            text += f"-- {kf.__name__}: untranslatable: {msg}\n\n"
            status["np_" + kf.__name__] = f"untranslatable: {msg}"
    text += "end WS.Gen\n"
    write_if_changed(gen_dir / "NpKernels.lean", text)
    return status

"""T-tier, smoothing: `core.utils.smooth_spec` (decision logic and data flow, statement by statement) and the forwarding
of `SpecArray.smooth` → Lean definitions in `lean/WsVerif/Gen/SmoKernels.lean` (rewritten only if changed).  Called from
`translate.generate()`.  Vocabulary: `Model/SmoRt.lean` (namespace `WS.Smo`); bridges to `Model/Smooth.lean` FOR ALL
INPUTS: `Props/C16smo.lean` (`C16.gensmo_*`), helper lemmas `Lemmas/SmoBridge.lean`.

The body of `smooth_spec` must consist of exactly the 14 top-level statements of the skeleton below, in this order (an
inserted, removed or reordered statement makes the function untranslatable); every statement is translated through the
typed expression grammar of `Cx` or pinned verbatim in `smoSmoothSpec_plumbing`:

    0  for <w> in [<n>, …]: if <test>: raise ValueError(…)           -> smoValidate   (the loop variable LEAKS)
    1  <out> = <in>.sortby(DIR)                                        \\ smoLabels
    2  <out>[DIR] = <X>[DIR].astype('float32')                         /
    3  <v> = <out>[DIR].values;  4  <dd> = list(set(np.diff(<v>)))     \\ smoIsCircular
    5  if len(<dd>) == 1: … else: …                                    /
    6  if <circ>: <left/right ghost blocks, concat>                    -> smoPad
    7  <dim> = {FREQ: a, DIR: b};  8  <out> = <out>.rolling(dim=<dim>, center=True).mean()   -> smoRolling
    9  if not <out>[DIR].equals(<in>[DIR]): <out> = <out>.sel(**{DIR: <in>[DIR]}); <chunk: pinned>  -> smoClip
    10 <out> = <out>.assign_coords(<in>.coords);  11 <out> = xr.where(<out>.notnull(), <out>, <in>) -> smoFill
    12 set_spec_attributes(<out>)   (pinned)     13 return <out>

`smoSmoothSpec` composes the stage definitions in that order.  Each stage only sees the names listed in its signature,
so a statement that reads a name of another stage is untranslatable.  Reading (trusted): see `Model/SmoRt.lean` and
tools/NOTES-translate_smo.md.
"""
import ast

from .common import REPO
from .translate import Untranslatable, _module, body_stmts, find_func, lean_str, rat, write_if_changed
from .translate_spl import imports_of, sig_def, signature

UTILS = "wavespectra/core/utils.py"
SPECARRAY = "wavespectra/specarray.py"
ATTRS_YML = "wavespectra/core/attributes.yml"
DIRN, FREQN = "attrs.DIRNAME", "attrs.FREQNAME"

N, R, VR, LR, B, DS, RS, F32, EXC_RS, SET = "N", "R", "VR", "LR", "B", "DS", "RS", "F32", "EXC_RS", "SET"
LEAN_TY = {N: "Nat", R: "Rat", VR: "Vec", B: "Bool", DS: "Smo.DS", RS: "Smo.RS"}
CMP = {ast.Lt: "<", ast.LtE: "≤", ast.Gt: ">", ast.GtE: "≥", ast.Eq: "=", ast.NotEq: "≠"}
ARITH = {ast.Add: "+", ast.Sub: "-", ast.Mult: "*", ast.Div: "/"}


def U(msg):
    return Untranslatable(msg)


def src(node):
    return ast.unparse(node)


def is_const_num(e):
    return isinstance(e, ast.Constant) and isinstance(e.value, (int, float)) and not isinstance(e.value, bool)


def star_dict(call):
    """`f(**{K: v})` -> (K source, v) ; None otherwise"""
    if (not call.args and len(call.keywords) == 1 and call.keywords[0].arg is None and isinstance(call.keywords[0].value, ast.Dict)
            and len(call.keywords[0].value.keys) == 1 and call.keywords[0].value.keys[0] is not None):
        d = call.keywords[0].value
        return src(d.keys[0]), d.values[0]
    return None


class Cx:
    def __init__(self, env):
        self.env = dict(env)
        self.len1 = set()     # list names known to have exactly one element here
        self.dims = {}        # name -> (fw, dw) of a `{FREQ: fw, DIR: dw}` literal
        self.pinned = set()   # names bound by pinned statements (only usable as `**name`)
        self.plumbing = []

    # ---- expressions -------------------------------------------------------------------------
    def const(self, e, want):
        if want == N:
            if isinstance(e.value, int) and e.value >= 0:
                return str(e.value), N
            raise U(f"constant `{src(e)}` where a natural number is expected")
        return rat(e.value), R

    def pair(self, l, r):
        """two operands of an arithmetic operator / comparison; a literal takes the type of the other side"""
        if is_const_num(l) and is_const_num(r):
            return self.const(l, R), self.const(r, R)
        if is_const_num(l):
            b = self.expr(r)
            return self.const(l, b[1]), b
        a = self.expr(l)
        if is_const_num(r):
            return a, self.const(r, a[1])
        return a, self.expr(r)

    def coord(self, e):
        """`X[DIR]` -> X"""
        if (isinstance(e, ast.Subscript) and isinstance(e.value, ast.Name) and src(e.slice) == DIRN
                and self.env.get(e.value.id) in (DS, RS)):
            return e.value.id
        return None

    def expr(self, e):
        s = src(e)
        if isinstance(e, ast.Name):
            if e.id in self.env:
                return e.id, self.env[e.id]
            raise U(f"unknown name `{e.id}` (not visible in this stage)")
        if isinstance(e, ast.Constant):
            if isinstance(e.value, bool):
                return str(e.value).lower(), B
            if is_const_num(e):
                return self.const(e, R)
            raise U(f"constant `{s}`")
        if isinstance(e, ast.BinOp):
            (a, ta), (b, tb) = self.pair(e.left, e.right)
            if type(e.op) in ARITH and ta == R and tb == R:
                return f"({a} {ARITH[type(e.op)]} {b})", R
            if isinstance(e.op, ast.Mod) and ta == N and tb == N:
                return f"({a} % {b})", N
            raise U(f"operator in `{s}` ({ta}, {tb})")
        if isinstance(e, ast.UnaryOp):
            a, ta = self.expr(e.operand)
            if isinstance(e.op, ast.Not) and ta == B:
                return f"(!{a})", B
            if isinstance(e.op, ast.USub) and ta == R:
                return f"(-{a})", R
            raise U(f"unary operator in `{s}`")
        if isinstance(e, ast.Compare):
            if len(e.ops) != 1 or type(e.ops[0]) not in CMP:
                raise U(f"comparison `{s}`")
            (a, ta), (b, tb) = self.pair(e.left, e.comparators[0])
            if ta == tb and ta in (R, N):
                return f"(decide ({a} {CMP[type(e.ops[0])]} {b}))", B
            raise U(f"comparison `{s}` of {ta} with {tb}")
        if isinstance(e, ast.Subscript):
            if isinstance(e.value, ast.Name) and self.env.get(e.value.id) == LR and src(e.slice) == "0":
                if e.value.id not in self.len1:
                    raise U(f"`{s}` outside a `len({e.value.id}) == 1` branch")
                return f"(Smo.item0 {e.value.id})", R
            raise U(f"subscript `{s}` as a value")
        if isinstance(e, ast.Attribute):
            x = self.coord(e.value)
            if x and e.attr == "values" and self.env[x] == DS:
                return f"(Smo.dirValues {x})", VR
            raise U(f"attribute `{s}`")
        if isinstance(e, ast.Call):
            return self.call(e)
        raise U(f"expression `{s}`")

    def nat(self, e):
        a, t = self.expr(e)
        if t != N:
            raise U(f"`{src(e)}` is not a window size")
        return a

    def call(self, e):
        s = src(e)
        f = src(e.func)
        plain = not e.keywords
        if f in ("float", "abs") and plain and len(e.args) == 1:
            a, t = self.expr(e.args[0])
            if t != R:
                raise U(f"`{s}`")
            return (a, R) if f == "float" else (f"(WS.absR {a})", R)
        if f == "len" and plain and len(e.args) == 1:
            a, t = self.expr(e.args[0])
            if t != LR:
                raise U(f"`{s}`")
            return f"({a}).length", N
        if f == "np.diff" and plain and len(e.args) == 1:
            a, t = self.expr(e.args[0])
            if t != VR:
                raise U(f"`{s}`")
            return f"(Smo.npDiff {a})", VR
        if f == "set" and plain and len(e.args) == 1:
            a, t = self.expr(e.args[0])
            if t != VR:
                raise U(f"`{s}`")
            return a, SET
        if f == "list" and plain and len(e.args) == 1:
            a, t = self.expr(e.args[0])
            if t != SET:
                raise U(f"`{s}`")
            return f"(Smo.listSet {a})", LR
        if f == "xr.concat":
            kw = {k.arg: k.value for k in e.keywords}
            stars = kw.pop(None, None)
            if (len(e.args) != 1 or not isinstance(e.args[0], ast.List) or set(kw) != {"dim"} or src(kw["dim"]) != DIRN
                    or len(e.keywords) != 2 or not (isinstance(stars, ast.Name) and stars.id in self.pinned)):
                raise U(f"`{s}` is not `xr.concat([…], dim={DIRN}, **<pinned>)`")
            parts = [self.expr(x) for x in e.args[0].elts]
            if not parts or any(t != DS for _, t in parts):
                raise U(f"`{s}`: pieces")
            return "(Smo.concatDir [" + ", ".join(a for a, _ in parts) + "])", DS
        if f == "xr.where" and plain and len(e.args) == 3:
            c, x, y = e.args
            if (isinstance(c, ast.Call) and isinstance(c.func, ast.Attribute) and c.func.attr == "notnull" and not c.args and not c.keywords
                    and isinstance(x, ast.Name) and src(c.func.value) == x.id and self.env.get(x.id) == RS
                    and isinstance(y, ast.Name) and self.env.get(y.id) == DS):
                return f"(Smo.whereNotnull {x.id} {y.id})", DS
            raise U(f"`{s}` is not `xr.where(X.notnull(), X, Y)`")
        if not isinstance(e.func, ast.Attribute):
            raise U(f"call `{s}`")
        m, recv = e.func.attr, e.func.value
        if m in ("max", "min") and plain and not e.args:
            a, t = self.expr(recv)
            if t != VR:
                raise U(f"`{s}`")
            return f"(Smo.a{m} {a})", R
        if m == "mean" and plain and not e.args and isinstance(recv, ast.Call) and isinstance(recv.func, ast.Attribute) \
                and recv.func.attr == "rolling":
            x, tx = self.expr(recv.func.value)
            kw = {k.arg: k.value for k in recv.keywords}
            if tx != DS or recv.args or set(kw) != {"dim", "center"} or len(recv.keywords) != 2 or src(kw["center"]) != "True":
                raise U(f"`{s}` is not `X.rolling(dim=<dict>, center=True).mean()`")
            d = kw["dim"]
            if isinstance(d, ast.Name) and d.id in self.dims:
                fw, dw = self.dims[d.id]
            else:
                fw, dw = self.dim_dict(d)
            return f"(Smo.rollingMean {fw} {dw} {x})", RS
        cx = self.coord(recv)
        if m == "astype" and plain and len(e.args) == 1 and cx and self.env[cx] == DS:
            if src(e.args[0]) != "'float32'":
                raise U(f"`{s}`: dtype")
            return f"(Smo.f32 {cx})", F32
        if m == "equals" and plain and len(e.args) == 1 and cx and self.coord(e.args[0]):
            return f"(Smo.coordEquals {cx}.dir {self.coord(e.args[0])}.dir)", B
        if not isinstance(recv, ast.Name) or self.env.get(recv.id) not in (DS, RS):
            raise U(f"call `{s}`")
        x, tx = recv.id, self.env[recv.id]
        if m == "sortby" and plain and tx == DS and [src(a) for a in e.args] == [DIRN]:
            return f"(Smo.sortby {x})", DS
        if m == "isel" and tx == DS and star_dict(e) and star_dict(e)[0] == DIRN:
            sl = star_dict(e)[1]
            if not (isinstance(sl, ast.Call) and src(sl.func) == "slice" and len(sl.args) == 2 and not sl.keywords):
                raise U(f"`{s}`: slice")
            lo, hi = sl.args
            if isinstance(lo, ast.UnaryOp) and isinstance(lo.op, ast.USub) and isinstance(hi, ast.Constant) and hi.value is None:
                return f"(Smo.iselLast {self.nat(lo.operand)} {x})", DS
            if isinstance(lo, ast.Constant) and lo.value == 0 and not isinstance(lo.value, bool) and isinstance(lo.value, int):
                return f"(Smo.iselFirst {self.nat(hi)} {x})", DS
            raise U(f"`{s}`: only slice(-w, None) and slice(0, w)")
        if m == "sel" and tx == RS and star_dict(e) and star_dict(e)[0] == DIRN:
            y = self.coord(star_dict(e)[1])
            if not y or self.env[y] != DS:
                raise U(f"`{s}`: labels")
            return f"(Smo.selDir {x} {y})", EXC_RS
        if m == "assign_coords" and plain and len(e.args) == 1:
            a = e.args[0]
            if (tx == RS and isinstance(a, ast.Attribute) and a.attr == "coords" and isinstance(a.value, ast.Name)
                    and self.env.get(a.value.id) == DS):
                return f"(Smo.assignCoords {x} {a.value.id})", RS
            if tx == DS and isinstance(a, ast.Dict) and len(a.keys) == 1 and a.keys[0] is not None and src(a.keys[0]) == DIRN \
                    and isinstance(a.values[0], ast.BinOp) and self.coord(a.values[0].left) == x:
                sub = Cx({"v": R})
                op = ast.BinOp(left=ast.Name(id="v"), op=a.values[0].op, right=a.values[0].right)
                lam, t = sub.expr(op)
                if t != R:
                    raise U(f"`{s}`")
                return f"(Smo.mapDir (fun v => {lam}) {x})", DS
            raise U(f"`{s}`")
        raise U(f"call `{s}`")

    def dim_dict(self, d):
        if not (isinstance(d, ast.Dict) and len(d.keys) == 2 and all(k is not None for k in d.keys)):
            raise U(f"`{src(d)}` is not a `{{FREQ: a, DIR: b}}` literal")
        kv = {src(k): v for k, v in zip(d.keys, d.values)}
        if set(kv) != {FREQN, DIRN}:
            raise U(f"`{src(d)}`: keys")
        return self.nat(kv[FREQN]), self.nat(kv[DIRN])

    # ---- statements --------------------------------------------------------------------------
    def block(self, stmts, ret, ret_ty, exc, ind):
        """statements in order, then the value of `ret`; an `if` is accepted in tail position only"""
        pad = "  " * ind
        lines = []
        for k, s in enumerate(stmts):
            last = k == len(stmts) - 1
            if isinstance(s, ast.If):
                if not last:
                    raise U(f"`if {src(s.test)}` is not the last statement of its stage")
                c, t = self.expr(s.test)
                if t != B:
                    raise U(f"test `{src(s.test)}`")
                saved = (dict(self.env), set(self.len1))
                # `len(X) == 1` guards `X[0]` in the true branch
                if (isinstance(s.test, ast.Compare) and len(s.test.ops) == 1 and isinstance(s.test.ops[0], ast.Eq)
                        and src(s.test.comparators[0]) == "1" and isinstance(s.test.left, ast.Call) and src(s.test.left.func) == "len"
                        and isinstance(s.test.left.args[0], ast.Name)):
                    self.len1.add(s.test.left.args[0].id)
                lines.append(f"{pad}if {c} then")
                lines += self.block(s.body, ret, ret_ty, exc, ind + 1)
                self.env, self.len1 = dict(saved[0]), set(saved[1])
                lines.append(f"{pad}else")
                lines += self.block(s.orelse, ret, ret_ty, exc, ind + 1)
                self.env, self.len1 = saved
                return lines
            if not (isinstance(s, ast.Assign) and len(s.targets) == 1):
                raise U(f"statement `{src(s)[:80]}`")
            tgt, v = s.targets[0], s.value
            if isinstance(tgt, ast.Subscript):
                x = self.coord(tgt)
                a, t = self.expr(v)
                if not x or self.env[x] != DS or t != F32:
                    raise U(f"`{src(s)}` is not `X[DIR] = Y[DIR].astype('float32')`")
                lines.append(f"{pad}let {x} := Smo.setDir {x} {a}")
                continue
            if not isinstance(tgt, ast.Name):
                raise U(f"target of `{src(s)}`")
            n = tgt.id
            if isinstance(v, ast.Dict):
                self.dims[n] = self.dim_dict(v)
                self.env.pop(n, None)
                continue
            if (isinstance(v, ast.Call) and isinstance(v.func, ast.Attribute) and v.func.attr == "chunk" and src(v.func.value) == n
                    and self.env.get(n) in (DS, RS)):
                self.plumbing.append(s)   # dask chunking: no effect on values, pinned
                continue
            if n == "kwargs":
                self.plumbing.append(s)   # keyword arguments of the Dataset concat, pinned
                self.pinned.add(n)
                self.env.pop(n, None)
                continue
            a, t = self.expr(v)
            if t == EXC_RS:
                if not exc:
                    raise U(f"`{src(s)}` can raise in a stage that cannot")
                lines.append(f"{pad}match {a} with")
                lines.append(f"{pad}| .error err => .error err")
                lines.append(f"{pad}| .ok {n} =>")
                self.env[n] = RS
                continue
            if t not in (N, R, VR, LR, B, DS, RS):
                raise U(f"`{src(s)}`: a value of kind {t} cannot be bound")
            if n in self.len1:
                self.len1.discard(n)
            lines.append(f"{pad}let {n} := {a}")
            self.env[n] = t
        if self.env.get(ret) != ret_ty:
            raise U(f"`{ret}` is {self.env.get(ret)} at the end of the stage, expected {ret_ty}")
        lines.append(f"{pad}.ok {ret}" if exc else f"{pad}{ret}")
        return lines


def params(ps):
    return " ".join(f"({n} : {LEAN_TY[t]})" for n, t in ps)


def stage(name, doc, ps, stmts, ret, ret_ty, exc, plumbing):
    cx = Cx(dict(ps))
    lines = cx.block(stmts, ret, ret_ty, exc, 1)
    plumbing += cx.plumbing
    rty = f"Except Err {LEAN_TY[ret_ty]}" if exc else LEAN_TY[ret_ty]
    return f"/-- {doc} -/\ndef {name} {params(ps)} : {rty} :=\n" + "\n".join(lines) + "\n"


BUILTINS = {"abs", "len", "list", "set", "float", "slice", "isinstance", "ValueError"}
IMPORTED = {"np", "xr", "attrs", "set_spec_attributes"}


def module_bindings(path):
    """names bound at module level (imports, defs, classes, assignments), with multiplicity"""
    out = []
    for s in _module(path).body:
        if isinstance(s, (ast.Import, ast.ImportFrom)):
            out += [(al.asname or al.name).split(".")[0] for al in s.names]
        elif isinstance(s, (ast.FunctionDef, ast.AsyncFunctionDef, ast.ClassDef)):
            out.append(s.name)
        elif isinstance(s, (ast.Assign, ast.AnnAssign, ast.AugAssign)):
            for t in (s.targets if isinstance(s, ast.Assign) else [s.target]):
                out += [n.id for n in ast.walk(t) if isinstance(n, ast.Name)]
        elif not (isinstance(s, ast.Expr) and isinstance(s.value, ast.Constant)):
            raise U(f"{path}: module-level statement `{src(s)[:60]}`")
    return out


def k_smooth_spec():
    fn = find_func(UTILS, "smooth_spec")
    bound = module_bindings(UTILS)
    for b in sorted(BUILTINS):
        if b in bound:
            raise U(f"core/utils.py rebinds the builtin `{b}` at module level")
    for b in sorted(IMPORTED):
        if bound.count(b) != 1:
            raise U(f"core/utils.py binds `{b}` {bound.count(b)} times at module level (expected: the one pinned import)")
    if bound.count("smooth_spec") != 1:
        raise U("core/utils.py defines `smooth_spec` more than once")
    for nd in ast.walk(fn):
        if isinstance(nd, (ast.Global, ast.Nonlocal, ast.FunctionDef, ast.Lambda, ast.ClassDef, ast.Import, ast.ImportFrom)) and nd is not fn:
            raise U(f"smooth_spec: nested `{type(nd).__name__}`")
    sig = signature(fn, ["dset", "freq_window", "dir_window"])
    IN, FW, DW = (n for n, _ in sig)
    st = body_stmts(fn)
    if len(st) != 14:
        raise U(f"smooth_spec: {len(st)} top-level statements, the skeleton has 14")
    plumbing = []
    # 0: parity loop
    lp = st[0]
    if not (isinstance(lp, ast.For) and isinstance(lp.target, ast.Name) and isinstance(lp.iter, ast.List) and lp.iter.elts
            and not lp.orelse and all(isinstance(x, ast.Name) and x.id in (FW, DW) for x in lp.iter.elts)):
        raise U("smooth_spec: statement 0 is not `for <w> in [<window names>]:`")
    W = lp.target.id
    if W in (IN, FW, DW):
        raise U("smooth_spec: the loop variable shadows an argument")
    tests = []
    for t in lp.body:
        if not (isinstance(t, ast.If) and not t.orelse and len(t.body) == 1 and isinstance(t.body[0], ast.Raise)
                and isinstance(t.body[0].exc, ast.Call) and src(t.body[0].exc.func) == "ValueError"):
            raise U(f"smooth_spec: `{src(t)[:60]}` in the parity loop is not `if …: raise ValueError(…)`")
        c, ty = Cx({W: N}).expr(t.test)
        if ty != B:
            raise U("smooth_spec: parity test")
        tests.append(c)
        plumbing.append(t.body[0])
    items = ", ".join(x.id for x in lp.iter.elts)
    text = sig_def("smoSmoothSpec", sig)
    text += ("/-- statement 0: the parity loop; the result is the value the loop variable keeps afterwards -/\n"
             f"def smoValidate ({FW} {DW} : Nat) : Except Err Nat :=\n  Smo.forLeak [{items}] (fun {W} =>\n"
             + "".join(f"    if {c} then .error .valueError else\n" for c in tests) + "    .ok ())\n")
    # 13: return
    if not (isinstance(st[13], ast.Return) and isinstance(st[13].value, ast.Name)):
        raise U("smooth_spec: statement 13 is not `return <name>`")
    OUT = st[13].value.id
    if OUT in (IN, FW, DW, W):
        raise U("smooth_spec: returned name")
    # 12: pinned
    if not (isinstance(st[12], ast.Expr) and isinstance(st[12].value, ast.Call) and src(st[12].value.func) == "set_spec_attributes"):
        raise U("smooth_spec: statement 12 is not the `set_spec_attributes(…)` call")
    nats = [(W, N), (FW, N), (DW, N)]
    text += stage("smoLabels", "statements 1–2: `sortby(dir)` and the float32 relabel", [(IN, DS)], st[1:3], OUT, DS, False, plumbing)
    text += stage("smoIsCircular", "statements 3–5: the circularity test", [(OUT, DS)], st[3:6], "is_circular", B, False, plumbing)
    ifc = st[6]
    if not (isinstance(ifc, ast.If) and isinstance(ifc.test, ast.Name) and not ifc.orelse):
        raise U("smooth_spec: statement 6 is not `if <name>:` without else")
    CIRC = ifc.test.id
    if CIRC != "is_circular":
        # the stage above returns the name tested here
        raise U(f"smooth_spec: statement 6 tests `{CIRC}`, statements 3–5 compute `is_circular`")
    text += stage("smoPad", "statement 6 (body): ghost blocks on both sides", nats + [(OUT, DS)], ifc.body, OUT, DS, False, plumbing)
    text += stage("smoRolling", "statements 7–8: the centred rolling mean", nats + [(OUT, DS)], st[7:9], OUT, RS, False, plumbing)
    if not (isinstance(st[9], ast.If) and not st[9].orelse):
        raise U("smooth_spec: statement 9 is not an `if` without else")
    text += stage("smoClip", "statement 9: clip back to the stored labels", [(IN, DS), (OUT, RS)], [st[9]], OUT, RS, True, plumbing)
    text += stage("smoFill", "statements 10–11: original coordinates, fill of the incomplete windows", [(IN, DS), (OUT, RS)], st[10:12],
                  OUT, DS, False, plumbing)
    plumbing.append(st[12])
    text += "def smoSmoothSpec_plumbing : List String := [" + ", ".join(lean_str(src(s)) for s in plumbing) + "]\n"
    text += f"def smoSmoothSpec_imports : List String := [{', '.join(lean_str(x) for x in imports_of(UTILS, {'np', 'xr', 'attrs', 'set_spec_attributes'}))}]\n"
    yml = [ln.strip() for ln in (REPO / ATTRS_YML).read_text().splitlines() if ln.startswith(("FREQNAME:", "DIRNAME:"))]
    text += f"def smoSmoothSpec_dimnames : List String := [{', '.join(lean_str(x) for x in yml)}]\n"
    text += ("/-- `smooth_spec` for one spectrum: the stages in source order -/\n"
             f"def smoSmoothSpec ({IN} : Smo.DS) ({FW} {DW} : Nat) : Except Err (Vec × Mat) :=\n"
             f"  match smoValidate {FW} {DW} with\n  | .error err => .error err\n  | .ok {W} =>\n"
             f"  let {OUT} := smoLabels {IN}\n"
             f"  let {CIRC} := smoIsCircular {OUT}\n"
             f"  let {OUT} := if {CIRC} then smoPad {W} {FW} {DW} {OUT} else {OUT}\n"
             f"  let {OUT} := smoRolling {W} {FW} {DW} {OUT}\n"
             f"  match smoClip {IN} {OUT} with\n  | .error err => .error err\n  | .ok {OUT} =>\n"
             f"  let {OUT} := smoFill {IN} {OUT}\n"
             f"  .ok (Smo.out {OUT})\n")
    return text


def k_accessor():
    if not DONE.get("smooth_spec"):
        raise U("depends on `smooth_spec`, which is untranslatable")
    fn = find_func(SPECARRAY, "SpecArray.smooth")
    sig = signature(fn, ["self", "freq_window", "dir_window"])
    target = find_func(UTILS, "smooth_spec")
    st = body_stmts(fn)
    want = "return smooth_spec(self._obj, freq_window=freq_window, dir_window=dir_window)"
    if [src(s) for s in st] != [want]:
        raise U("SpecArray.smooth is not the plain forwarding call")
    d1 = [src(d) if d is not None else "" for _, d in sig][1:]
    d2 = [src(d) for d in target.args.defaults]
    text = sig_def("smoAccessor", sig)
    text += f"def smoAccessor_body : List String := [{', '.join(lean_str(src(s)) for s in st)}]\n"
    text += f"def smoAccessor_imports : List String := [{', '.join(lean_str(x) for x in imports_of(SPECARRAY, {'smooth_spec'}))}]\n"
    text += f"def smoAccessor_defaults : List String := [{', '.join(lean_str(x) for x in d1)}]\n"
    text += f"def smoSmoothSpec_defaults : List String := [{', '.join(lean_str(x) for x in d2)}]\n"
    text += ("/-- `SpecArray.smooth(freq_window, dir_window)` = `smooth_spec(self._obj, …)` -/\n"
             "def smoAccessor (obj : Smo.DS) (freq_window dir_window : Nat) : Except Err (Vec × Mat) :=\n"
             "  smoSmoothSpec obj freq_window dir_window\n")
    return text


DONE = {}
SMO_KERNELS = [("smooth_spec", k_smooth_spec), ("accessor", k_accessor)]

HEADER = """import WsVerif.Gen.Prelude
import WsVerif.Model.SmoRt
/-! GENERATED by harness/translate_smo.py from wavespectra/core/utils.py (smooth_spec) and specarray.py (SpecArray.smooth)
    — do not edit.  Vocabulary: Model/SmoRt.lean.  Bridged to Model/Smooth.lean in Props/C16smo.lean (`gensmo_*`). -/
set_option linter.unusedVariables false
namespace WS.Gen
open WS
"""


def generate_smo(gen_dir):
    status = {}
    DONE.clear()
    text = HEADER
    for name, kf in SMO_KERNELS:
        try:
            text += kf() + "\n"
            DONE[name] = True
            status["smo_" + name] = "ok"
        except Exception as e:  # Untranslatable or a malformed tree: the tie is broken, the bridges will not build
            msg = f"{type(e).__name__}: {e}".replace("\n", " ")[:300]
            text += f"-- {name}: untranslatable: {msg.replace('-/', '- /').replace('/-', '/ -')}\n\n"
            status["smo_" + name] = f"untranslatable: {msg}"
    text += "end WS.Gen\n"
    write_if_changed(gen_dir / "SmoKernels.lean", text)
    return status

"""T-tier for C06 (each spectrum is processed independently): a regenerated audit of every axis-sensitive call in the
labelled-array layer of wavespectra.

For every function of `SpecArray`, `core/xrstats.py`, `Partition` (the methods, not the numpy kernels), `regrid_spec`,
`smooth_spec` and `SpecDataset`, every call of a reducing / axis-aware method (`sum, mean, max, argmax, diff, rolling, interp,
sortby, cumsum, …`) is recorded with the dimensions it acts along, resolved from the source text:

 kind "dim"    the call names its dimensions (`dim=attrs.FREQNAME`, a positional dimension, `dim=self._spec_dims`, the keys of
               an `interp(freq=…, dir=…)` call, a `rolling(dim={…})` dictionary): `dims` is the list of resolved names;
 kind "coord"  the receiver is a coordinate array (`self.freq`, `ds.dir`, a local bound to `….values` of one, the target
               `freq` / `dir` arguments of `regrid_spec`): a 1-D quantity of the grid, no spectrum is involved;
 kind "all"    anything else: a reduction with no named dimension on something that is not recognisably a coordinate — it
               would mix positions.  `dims = ["*"]`.

and every `xr.apply_ufunc` call with its `input_core_dims`, `output_core_dims` and `vectorize` flag.  `Props/C06dims.lean`
proves (by `decide` over the regenerated tables) that every entry acts along `freq` / `dir` only, is a coordinate quantity, or
is one of the exceptions listed there by name, and that every `apply_ufunc` is vectorised over core dimensions ⊆ {freq, dir}
(outputs ⊆ {part, freq, dir}); `Model/DimSem.lean` gives the statement its meaning (a reduction along a spectral axis commutes
with extracting a position; one along any other axis does not).  The numpy kernels (`np_ptm*`, `np_hp01*`, `npstats.*`) are
not scanned: they receive one spectrum at a time exactly because of the `vectorize=True` + core-dims facts pinned here.
"""
import ast
import os
from pathlib import Path

REPO = Path(os.environ.get("VERIF_REPO", "/repo"))

REDUCERS = {"sum", "mean", "max", "min", "argmax", "argmin", "idxmax", "idxmin", "cumsum", "cumprod", "prod", "std", "var",
            "median", "any", "all", "count", "integrate", "differentiate", "cumulative_integrate", "diff", "rolling", "shift",
            "roll", "quantile", "rank", "ffill", "bfill", "interpolate_na", "coarsen", "interp", "sortby", "argsort", "dot",
            "weighted", "reduce", "cumulative", "groupby", "resample", "polyfit", "curvefit", "integrate"}
NAMES = {"attrs.FREQNAME": "freq", "attrs.DIRNAME": "dir", "attrs.TIMENAME": "time", "attrs.SITENAME": "site",
         "attrs.LATNAME": "lat", "attrs.LONNAME": "lon", "attrs.PARTNAME": "part", "attrs.SPECNAME": "efth"}
INTERP_OPTIONS = {"assume_sorted", "kwargs", "method", "maintain_m0"}
# indexing calls: the dimensions are the keyword names (or the keys of a `**{…}` / positional dictionary)
INDEXERS = {"isel", "sel", "drop_sel", "drop_isel", "head", "tail", "thin", "reindex", "pad"}
INDEX_OPTIONS = {"drop", "method", "tolerance", "missing_dims", "errors", "fill_value", "copy", "axis", "mode", "constant_values"}
COORD_ATTRS = {"freq", "dir"}

# (file, predicate on the dotted function path) of what is scanned
TARGETS = [
    ("wavespectra/specarray.py", lambda p: p.startswith("SpecArray.")),
    ("wavespectra/core/xrstats.py", lambda p: True),
    ("wavespectra/partition/partition.py", lambda p: p.startswith("Partition.")),
    ("wavespectra/core/utils.py", lambda p: p in ("regrid_spec", "smooth_spec", "scaled", "celerity", "wavelen", "wavenuma", "waveage", "angle", "to_nautical", "uv_to_spddir", "spddir_to_uv")),
    ("wavespectra/specdataset.py", lambda p: p.startswith("SpecDataset.")),
]


class Untranslatable(Exception):
    pass


def lstr(s):
    return '"' + s.replace("\\", "\\\\").replace('"', '\\"').replace("\n", "\\n") + '"'


def resolve_dim_expr(node, local_consts):
    """list of dimension names named by an expression, or None when it cannot be resolved"""
    if isinstance(node, ast.Constant) and isinstance(node.value, str):
        return [node.value]
    txt = ast.unparse(node)
    if txt in NAMES:
        return [NAMES[txt]]
    if txt == "self._spec_dims":
        return ["freq", "dir"]  # pinned separately: spec_dims_text
    if isinstance(node, (ast.List, ast.Tuple, ast.Set)):
        out = []
        for e in node.elts:
            r = resolve_dim_expr(e, local_consts)
            if r is None:
                return None
            out += r
        return out
    if isinstance(node, ast.Dict):
        out = []
        for k in node.keys:
            r = resolve_dim_expr(k, local_consts) if k is not None else None
            if r is None:
                return None
            out += r
        return out
    if isinstance(node, ast.Name) and node.id in local_consts:
        return resolve_dim_expr(local_consts[node.id], local_consts)
    return None


def is_coord_expr(node, coord_locals):
    """the expression denotes a coordinate array of the spectral grid"""
    if isinstance(node, ast.Attribute) and node.attr in COORD_ATTRS:
        return True
    if isinstance(node, ast.Attribute) and node.attr == "values":
        return is_coord_expr(node.value, coord_locals)
    if isinstance(node, ast.Subscript):
        # dsout[attrs.DIRNAME] / dset["dir"]
        r = resolve_dim_expr(node.slice, {})
        if r and len(r) == 1 and r[0] in COORD_ATTRS:
            return True
        return is_coord_expr(node.value, coord_locals)
    if isinstance(node, ast.Name):
        return node.id in coord_locals
    if isinstance(node, ast.Call) and isinstance(node.func, ast.Attribute):
        # self.freq.isel(freq=[...]) , np.diff(coord)
        if ast.unparse(node.func) in ("np.diff", "np.array", "np.asarray") and node.args:
            return is_coord_expr(node.args[0], coord_locals)
        if node.func.attr in ("isel", "sel", "astype"):
            return is_coord_expr(node.func.value, coord_locals)
    return False


class FuncScan(ast.NodeVisitor):
    def __init__(self, path, params):
        self.path = path
        self.uses = []
        self.ufuncs = []
        self.local_consts = {}
        # target coordinate arguments of regrid_spec / interp are 1-D coordinate arrays by contract (checked in the function)
        self.coord_locals = {p for p in params if p in ("freq", "dir")}

    def visit_Assign(self, n):
        if len(n.targets) == 1 and isinstance(n.targets[0], ast.Name):
            name = n.targets[0].id
            if isinstance(n.value, (ast.Dict, ast.List, ast.Tuple, ast.Constant)):
                self.local_consts[name] = n.value
            if is_coord_expr(n.value, self.coord_locals):
                self.coord_locals.add(name)
            elif name in self.coord_locals and name not in ("freq", "dir"):
                self.coord_locals.discard(name)
        self.generic_visit(n)

    def visit_FunctionDef(self, n):
        # nested functions are scanned as part of their parent
        self.generic_visit(n)

    def visit_Call(self, n):
        ftxt = ast.unparse(n.func)
        if ftxt.endswith("apply_ufunc"):
            kw = {k.arg: k.value for k in n.keywords}
            try:
                ins = [resolve_dim_expr(x, {}) for x in kw["input_core_dims"].elts]
                outs = [resolve_dim_expr(x, {}) for x in kw["output_core_dims"].elts] if "output_core_dims" in kw else [[]]
            except Exception as e:  # noqa
                raise Untranslatable(f"{self.path}: apply_ufunc core dims not literal: {e}")
            if any(x is None for x in ins + outs):
                raise Untranslatable(f"{self.path}: apply_ufunc core dims not resolvable")
            vec = "vectorize" in kw and isinstance(kw["vectorize"], ast.Constant) and kw["vectorize"].value is True
            kern = ast.unparse(n.args[0]) if n.args else "?"
            self.ufuncs.append((self.path, kern, ins, outs, vec))
        elif ftxt == "unique_indices":
            # generic de-duplication helper: the dimension is its second argument (default "time")
            d = resolve_dim_expr(n.args[1], self.local_consts) if len(n.args) > 1 else None
            self.uses.append((self.path, "unique_indices", "dim" if d else "all", d or ["*"], ast.unparse(n.args[0]) if n.args else ""))
        elif isinstance(n.func, ast.Attribute) and n.func.attr in INDEXERS and ast.unparse(n.func.value) not in ("np", "numpy"):
            dims, ok = [], True
            for k in n.keywords:
                if k.arg is None:
                    r = resolve_dim_expr(k.value, self.local_consts)
                    ok = ok and r is not None
                    dims += r or []
                elif k.arg == "dim":
                    r = resolve_dim_expr(k.value, self.local_consts)
                    ok = ok and r is not None
                    dims += r or []
                elif k.arg not in INDEX_OPTIONS:
                    dims.append(k.arg)
            for a in n.args:
                r = resolve_dim_expr(a, self.local_consts)
                ok = ok and r is not None
                dims += r or []
            rtxt = ast.unparse(n.func.value)
            if ok and dims:
                self.uses.append((self.path, n.func.attr, "dim", dims, rtxt))
            elif is_coord_expr(n.func.value, self.coord_locals):
                self.uses.append((self.path, n.func.attr, "coord", [], rtxt))
            else:
                self.uses.append((self.path, n.func.attr, "all", ["*"], rtxt))
        elif isinstance(n.func, ast.Attribute) and n.func.attr in REDUCERS:
            recv = n.func.value
            rtxt = ast.unparse(recv)
            op = n.func.attr
            kw = {k.arg: k.value for k in n.keywords}
            if rtxt in ("inspect", "os", "re", "logger", "warnings", "copy", "itertools"):
                pass
            elif rtxt in ("np", "numpy"):
                # numpy function on an explicit array argument
                arg0 = n.args[0] if n.args else None
                if arg0 is not None and is_coord_expr(arg0, self.coord_locals):
                    self.uses.append((self.path, "np." + op, "coord", [], ast.unparse(arg0)))
                elif arg0 is not None and isinstance(arg0, ast.Attribute) and arg0.attr == "time":
                    self.uses.append((self.path, "np." + op, "dim", ["time"], ast.unparse(arg0)))
                else:
                    self.uses.append((self.path, "np." + op, "all", ["*"], ast.unparse(arg0) if arg0 is not None else ""))
            else:
                dims = None
                if op == "interp":
                    ks = [k for k in kw if k not in INTERP_OPTIONS and k is not None]
                    dims = ks if ks else None
                elif "dim" in kw:
                    dims = resolve_dim_expr(kw["dim"], self.local_consts)
                elif n.args and op not in ("dot",):
                    dims = resolve_dim_expr(n.args[0], self.local_consts)
                if dims is not None:
                    self.uses.append((self.path, op, "dim", dims, rtxt))
                elif is_coord_expr(recv, self.coord_locals):
                    self.uses.append((self.path, op, "coord", [], rtxt))
                elif isinstance(recv, ast.Call) and isinstance(recv.func, ast.Attribute) and recv.func.attr in ("rolling", "coarsen", "weighted", "groupby", "resample"):
                    # `.rolling(dim=…).mean()`: the axis is that of the rolling object, recorded at the inner call
                    self.uses.append((self.path, op, "dim", [], rtxt))
                else:
                    self.uses.append((self.path, op, "all", ["*"], rtxt))
        self.generic_visit(n)


def scan_file(rel, pred):
    src = (REPO / rel).read_text()
    tree = ast.parse(src)
    uses, ufuncs = [], []

    def walk(body, prefix):
        for node in body:
            if isinstance(node, ast.ClassDef):
                walk(node.body, prefix + node.name + ".")
            elif isinstance(node, (ast.FunctionDef, ast.AsyncFunctionDef)):
                path = prefix + node.name
                if pred(path):
                    params = [a.arg for a in node.args.args + node.args.kwonlyargs]
                    fs = FuncScan(path, params)
                    for st in node.body:
                        fs.visit(st)
                    uses.extend(fs.uses)
                    ufuncs.extend(fs.ufuncs)

    walk(tree.body, "")
    return uses, ufuncs


def scan_dask(rel, pred):
    """per apply_ufunc call: union of the input core dims, the `.chunk({dim: value})` specifications applied in the same function
    before (or inside the arguments of) the call, the `allow_rechunk` flag of dask_gufunc_kwargs and the `dask=` mode"""
    src = (REPO / rel).read_text()
    tree = ast.parse(src)
    out = []

    def chunk_specs(call):
        specs = []
        cand = list(call.args) + [k.value for k in call.keywords if k.arg is None]
        for a in cand:
            if isinstance(a, ast.Dict):
                for k, v in zip(a.keys, a.values):
                    r = resolve_dim_expr(k, {}) if k is not None else None
                    if r is None or len(r) != 1:
                        raise Untranslatable(f"{rel}: chunk key not resolvable: {ast.unparse(a)}")
                    specs.append((r[0], ast.unparse(v)))
            else:
                raise Untranslatable(f"{rel}: chunk argument not a literal dict: {ast.unparse(a)}")
        for k in call.keywords:
            if k.arg is not None:
                specs.append((k.arg, ast.unparse(k.value)))
        return specs

    def do_func(path, fn):
        chunks = []  # (lineno, specs); a `.chunk(…)` counts only when it is executed unconditionally: in a simple top-level
        # statement of the function or inside the arguments of the apply_ufunc call itself; one nested under if / for / while /
        # try / with is recorded with the value text prefixed by "cond:" (it then covers nothing)
        calls = []
        uncond = set()
        for st in fn.body:
            if not isinstance(st, (ast.If, ast.For, ast.While, ast.Try, ast.With, ast.FunctionDef, ast.Match)):
                for n in ast.walk(st):
                    uncond.add(id(n))
        for n in ast.walk(fn):
            if isinstance(n, ast.Call) and ast.unparse(n.func).endswith("apply_ufunc"):
                calls.append(n)
                for k in ast.walk(n):
                    uncond.add(id(k))
        for n in ast.walk(fn):
            if isinstance(n, ast.Call) and isinstance(n.func, ast.Attribute) and n.func.attr == "chunk":
                try:
                    sp = chunk_specs(n)
                except Untranslatable:
                    sp = [("?", "?")]
                if id(n) not in uncond:
                    sp = [(d, "cond:" + v) for d, v in sp]
                chunks.append((n.lineno, sp))
        for c in calls:
            kw = {k.arg: k.value for k in c.keywords}
            ins = [resolve_dim_expr(x, {}) for x in kw["input_core_dims"].elts]
            if any(x is None for x in ins):
                raise Untranslatable(f"{path}: core dims")
            core = []
            for ds in ins:
                for d in ds:
                    if d not in core:
                        core.append(d)
            end = getattr(c, "end_lineno", c.lineno)
            specs = [sp for (ln, sps) in chunks if ln <= end for sp in sps]
            allow = False
            if "dask_gufunc_kwargs" in kw and isinstance(kw["dask_gufunc_kwargs"], ast.Dict):
                for k, v in zip(kw["dask_gufunc_kwargs"].keys, kw["dask_gufunc_kwargs"].values):
                    if isinstance(k, ast.Constant) and k.value == "allow_rechunk":
                        allow = isinstance(v, ast.Constant) and v.value is True
            dask = kw["dask"].value if "dask" in kw and isinstance(kw["dask"], ast.Constant) else "?"
            out.append((path, ast.unparse(c.args[0]) if c.args else "?", core, specs, allow, str(dask)))

    def walk(body, prefix):
        for node in body:
            if isinstance(node, ast.ClassDef):
                walk(node.body, prefix + node.name + ".")
            elif isinstance(node, ast.FunctionDef) and pred(prefix + node.name):
                do_func(prefix + node.name, node)

    walk(tree.body, "")
    return out


def spec_dims_text():
    src = (REPO / "wavespectra/specarray.py").read_text()
    tree = ast.parse(src)
    for c in tree.body:
        if isinstance(c, ast.ClassDef) and c.name == "SpecArray":
            for f in c.body:
                if isinstance(f, ast.FunctionDef) and f.name == "_spec_dims":
                    body = [s for s in f.body if not (isinstance(s, ast.Expr) and isinstance(s.value, ast.Constant))]
                    return "\n".join(ast.unparse(s) for s in body)
    raise Untranslatable("SpecArray._spec_dims not found")


def wrapper_text():
    """the forwarding of SpecDataset to the accessor of its efth variable (`__getattr__` / `_wrapper`)"""
    src = (REPO / "wavespectra/specdataset.py").read_text()
    tree = ast.parse(src)
    out = []
    for c in tree.body:
        if isinstance(c, ast.ClassDef) and c.name == "SpecDataset":
            for f in c.body:
                if isinstance(f, ast.FunctionDef) and f.name in ("__getattr__", "_wrapper"):
                    body = [s for s in f.body if not (isinstance(s, ast.Expr) and isinstance(s.value, ast.Constant))]
                    out.append(f.name + ":" + "\n".join(ast.unparse(s) for s in body))
    return "\n".join(out)


def generate_dims(gen):
    status = {}
    text = ("import WsVerif.Model.DimSem\n/-! GENERATED by harness/translate_dims.py from the current source: every axis-sensitive call of the "
            "labelled-array layer. -/\nnamespace WS.Gen\nopen WS.DimSem\n")
    try:
        uses, ufuncs = [], []
        for rel, pred in TARGETS:
            u, f = scan_file(rel, pred)
            uses += u
            ufuncs += f
        text += "def dimsAudit : List DimUse := [\n" + ",\n".join(
            f"  ⟨{lstr(p)}, {lstr(op)}, {lstr(kind)}, [{', '.join(lstr(d) for d in dims)}], {lstr(recv[:80])}⟩"
            for (p, op, kind, dims, recv) in uses) + "]\n"
        text += "def ufuncAudit : List UfuncUse := [\n" + ",\n".join(
            f"  ⟨{lstr(p)}, {lstr(k)}, [{', '.join('[' + ', '.join(lstr(d) for d in ds) + ']' for ds in ins)}], "
            f"[{', '.join('[' + ', '.join(lstr(d) for d in ds) + ']' for ds in outs)}], {'true' if vec else 'false'}⟩"
            for (p, k, ins, outs, vec) in ufuncs) + "]\n"
        dask = []
        for rel, pred in TARGETS:
            dask += scan_dask(rel, pred)
        text += "def daskAudit : List DaskUse := [\n" + ",\n".join(
            f"  ⟨{lstr(p)}, {lstr(k)}, [{', '.join(lstr(d) for d in core)}], [{', '.join('(' + lstr(d) + ', ' + lstr(v) + ')' for d, v in specs)}], "
            f"{'true' if allow else 'false'}, {lstr(mode)}⟩" for (p, k, core, specs, allow, mode) in dask) + "]\n"
        text += f"def specDimsText : String := {lstr(spec_dims_text())}\n"
        text += f"def datasetWrapperText : String := {lstr(wrapper_text())}\n"
        status["dims_audit"] = "ok"
    except Exception as e:  # noqa
        text += f"-- dims_audit: untranslatable: {e}\n"
        status["dims_audit"] = f"untranslatable: {e}"
    text += "end WS.Gen\n"
    from .translate import write_if_changed
    write_if_changed(Path(gen) / "DimsAudit.lean", text)
    return status


if __name__ == "__main__":
    for rel, pred in TARGETS:
        u, f = scan_file(rel, pred)
        for x in u:
            print(x)
        for x in f:
            print("UFUNC", x)

"""Frame translator (C17, T-tier): Python AST of the public operations -> FrameIR programs (`Gen/FrameKernels.lean`).

For every anchored operation the walker emits `prog_<name> : FrameIR.Prog` over two statements
(`assign x srcs`, `store x c`; see lean/WsVerif/Model/FrameIR.lean), the parameter list, the variable names, the
summaries of the translated library functions it calls and the list of method/function names it could not classify
(treated as "may share everything with receiver and arguments"; the list is pinned in Props/C17frm.lean).

Variables are versioned by reaching definitions (a new version per assignment site; a use refers to every version that
may reach it; branches are merged, loop bodies are walked until the reaching sets are stable), everything else is
flow-insensitive.  Grammar, tables and what is trusted: tools/NOTES-translate_frm.md.
"""
import ast

from .translate import Untranslatable, find_func, lean_str, write_if_changed

CELLS = ["values", "coords", "attrs", "encoding", "dims", "name", "held"]
# attribute -> cell: `y.attrs` IS cell attrs of y (a write through it hits that cell)
PROJ = {"attrs": "attrs", "values": "values", "data": "values", "encoding": "encoding", "dims": "dims", "name": "name",
        "coords": "coords", "indexes": "coords", "variables": "coords", "data_vars": "coords"}
# attribute setters of xarray that COPY what they are given (`dict(value)`, a string, a tuple)
SETTER_COPIES = {"attrs", "encoding", "name", "dims"}
# method tables -------------------------------------------------------------------------------------------------
# result shares nothing with the receiver or the arguments
FRESH_METHODS = {
    "sortby", "interp", "interp_like", "mean", "sum", "min", "max", "std", "argmin", "argmax", "astype", "notnull", "isnull",
    "equals", "identical", "rolling", "hs", "tp", "dm", "dp", "dpm", "dspr", "tm01", "tm02", "momf", "momd", "fillna",
    "where", "item", "tolist", "to_index", "to_pydatetime", "total_seconds", "keys", "items", "getvalue", "format",
    "join", "split_", "startswith", "endswith", "lower", "upper", "cumsum", "diff", "round", "clip", "dropna",
    "stack", "unstack", "to_netcdf", "writestr", "basename", "splitext", "debug", "info", "warning", "integrate",
    "idxmax", "idxmin", "count", "any", "all", "isin", "pad", "shift", "roll", "load_", "compute", "groupby", "map",
    "reduce", "dot", "sel_", "copy_deep", "size", "index", "get_", "partition_", "flatten", "isclose", "ptp", "quantile",
}
# result is a new wrapper around the SAME buffers (values), own attrs/encoding/containers; arguments: values shared
SHALLOW_METHODS = {
    "isel", "sel", "transpose", "squeeze", "rename", "assign_coords", "assign", "assign_attrs", "copy", "chunk",
    "expand_dims", "swap_dims", "reset_coords", "set_coords", "to_dataset", "to_dataarray", "to_array", "reshape",
    "ravel", "view", "reindex", "reindex_like", "broadcast_like", "set_index", "reset_index", "rename_vars",
    "rename_dims", "head", "tail", "thin", "drop_sel", "drop_isel", "drop_indexes", "to_numpy", "as_numpy", "load",
    "persist", "unify_chunks", "pipe_",
}
# result keeps the receiver's Variable objects: values, attrs and encoding of the variables are shared
SHARE_VAE_METHODS = {"drop_vars", "drop_dims", "drop", "get", "values_", "setdefault_"}
# in-place: every cell of the receiver is written; result aliases the receiver; the arguments are stored into it
MUTATING_METHODS = {"update", "append", "extend", "insert", "pop", "popitem", "setdefault", "clear", "remove", "sort",
                    "reverse", "fill", "itemset", "put", "resize", "close", "__setitem__", "__delitem__", "add",
                    "discard", "partition", "setflags", "byteswap_"}
# functions by dotted name --------------------------------------------------------------------------------------
FRESH_FUNCS = {
    "np.array", "np.arange", "np.diff", "np.hstack", "np.vstack", "np.concatenate", "np.where", "np.unique", "np.mod",
    "np.abs", "np.sqrt", "np.zeros", "np.ones", "np.full", "np.zeros_like", "np.ones_like", "np.full_like", "np.linspace",
    "np.deg2rad", "np.rad2deg", "np.sin", "np.cos", "np.arctan2", "np.maximum", "np.minimum", "np.isnan", "np.argsort",
    "np.sort", "np.cumsum", "np.sum", "np.nanmax", "np.nanmin", "np.round", "np.floor", "np.ceil", "np.exp", "np.log",
    "np.tile", "np.repeat", "np.meshgrid", "np.trapz", "np.isclose", "np.allclose", "np.any", "np.all", "np.copy",
    "np.float32", "np.float64", "np.int32", "np.int64", "np.isscalar", "np.size", "np.shape", "np.ndim", "np.gradient",
    "np.interp", "np.pi", "np.power", "np.sign", "np.clip", "np.logical_and", "np.logical_or", "np.logical_not",
    "xr.concat", "xr.where", "xr.merge", "xr.zeros_like", "xr.ones_like", "xr.full_like", "xr.apply_ufunc",
    "xr.open_dataset", "xr.open_mfdataset", "xr.open_zarr", "xr.dot",
    "os.path.basename", "os.path.splitext", "os.path.join", "os.path.dirname", "os.path.isfile",
    "logger.debug", "logger.info", "logger.warning", "logger.error", "warnings.warn",
    "len", "float", "int", "str", "bool", "round", "isinstance", "min", "max", "sum", "abs", "range", "type", "repr",
    "hasattr", "callable", "print", "ValueError", "AssertionError", "TypeError", "NotImplementedError", "KeyError",
    "IOError", "OSError", "RuntimeError", "Exception", "ZipFile", "open", "divmod", "any", "all", "id",
    "datetime.datetime", "datetime.timedelta", "pd.to_datetime", "pd.Timestamp", "pd.to_timedelta",
}
# result may share the buffers of the arguments (values only)
VIEW_FUNCS = {"np.asarray", "np.atleast_1d", "np.atleast_2d", "np.squeeze", "np.ravel", "np.reshape", "np.transpose",
              "np.expand_dims", "np.broadcast_to", "np.asanyarray", "np.ascontiguousarray", "np.real", "np.swapaxes",
              "xr.DataArray", "xr.Dataset", "xr.broadcast", "xr.align", "np.flip", "np.moveaxis"}
# containers of their arguments (everything shared)
ALIAS_FUNCS = {"list", "tuple", "zip", "enumerate", "dict", "sorted", "set", "iter", "reversed", "next", "getattr",
               "frozenset", "map", "filter", "copy.copy"}
MODULE_NAMES = {"np", "xr", "os", "logger", "attrs", "warnings", "datetime", "pd", "copy", "re", "sys", "dask"}

# operations: lean name, file, qualname, class (for self.method resolution)
OPS = [
    ("set_spec_attributes", "wavespectra/core/attributes.py", "set_spec_attributes"),
    ("unique_indices", "wavespectra/core/utils.py", "unique_indices"),
    ("scaled", "wavespectra/core/utils.py", "scaled"),
    ("regrid_spec", "wavespectra/core/utils.py", "regrid_spec"),
    ("smooth_spec", "wavespectra/core/utils.py", "smooth_spec"),
    ("coords_swap", "wavespectra/core/select.py", "Coordinates._swap_longitude_convention"),
    ("coords_init", "wavespectra/core/select.py", "Coordinates.__init__"),
    ("sel_nearest", "wavespectra/core/select.py", "sel_nearest"),
    ("sel_idw", "wavespectra/core/select.py", "sel_idw"),
    ("sel_bbox", "wavespectra/core/select.py", "sel_bbox"),
    ("to_netcdf", "wavespectra/output/netcdf.py", "to_netcdf"),
    ("to_ww3", "wavespectra/output/ww3.py", "to_ww3"),
    ("to_funwave", "wavespectra/output/funwave.py", "to_funwave"),
    ("from_ww3", "wavespectra/input/ww3.py", "from_ww3"),
    ("from_ncswan", "wavespectra/input/ncswan.py", "from_ncswan"),
    ("sa_split", "wavespectra/specarray.py", "SpecArray.split"),
    ("sa_scale_by_hs", "wavespectra/specarray.py", "SpecArray.scale_by_hs"),
    ("sa_rotate", "wavespectra/specarray.py", "SpecArray.rotate"),
    ("sa_stats", "wavespectra/specarray.py", "SpecArray.stats"),
    ("part_ptm4", "wavespectra/partition/partition.py", "Partition.ptm4"),
    ("part_ptm5", "wavespectra/partition/partition.py", "Partition.ptm5"),
    ("part_bbox", "wavespectra/partition/partition.py", "Partition.bbox"),
    ("from_wwm", "wavespectra/input/wwm.py", "from_wwm"),
    ("from_era5", "wavespectra/input/era5.py", "from_era5"),
    ("from_ndbc", "wavespectra/input/ndbc.py", "from_ndbc"),
]
# python callee name -> lean name of its summary (plain calls `f(..)`; methods `<anything>.m(..)` of translated classes)
CALLEE_FUNCS = {"set_spec_attributes": "set_spec_attributes", "unique_indices": "unique_indices", "scaled": "scaled",
                "regrid_spec": "regrid_spec", "smooth_spec": "smooth_spec", "Coordinates": "coords_init",
                "sel_nearest": "sel_nearest", "sel_idw": "sel_idw", "sel_bbox": "sel_bbox"}
CALLEE_METHODS = {"_swap_longitude_convention": "coords_swap"}


def solve(params, prog):
    """the analysis of FrameIR.writes, in Python (used for the call summaries; re-derived in Lean by genfrm_calls_*)"""
    A = {}
    for v in params:
        for c in CELLS:
            A[(v, c)] = [(v, c)]
    changed = True
    while changed:
        changed = False
        for s in prog:
            if s[0] == "assign":
                _, x, srcs = s
                for (y, cy, cx) in srcs:
                    for t in A.get((y, cy), []):
                        if t not in A.setdefault((x, cx), []):
                            A[(x, cx)].append(t)
                            changed = True
    out = []
    for s in prog:
        if s[0] == "store":
            for t in A.get((s[1], s[2]), []):
                out.append(t)
    ded = []
    for t in reversed(out):  # mirrors FrameIR.dedup (keeps the LAST occurrence)
        if t not in ded:
            ded.insert(0, t)
    return ded


def all_of(v):
    return [(v, c, c) for c in CELLS]


def cells_of(v, cs):
    return [(v, c, c) for c in cs]


def proj_of(v, c):
    return [(v, c, c2) for c2 in CELLS]


class Walker:
    def __init__(self, lean, fn, summaries):
        self.lean, self.fn, self.summaries = lean, fn, summaries
        self.names = []          # var id -> display name
        self.ids = {}            # key -> var id
        self.prog = []           # statements (deduplicated, in emission order)
        self.seen = set()
        self.comp = {}           # container variable -> variable standing for its ELEMENTS
        self.calls = []          # (callee lean name, summary)
        self.unknown = []
        a = fn.args
        if a.posonlyargs:
            raise Untranslatable("positional-only parameters")
        pnames = [x.arg for x in a.args] + ([a.vararg.arg] if a.vararg else []) + [x.arg for x in a.kwonlyargs] + (
            [a.kwarg.arg] if a.kwarg else [])
        self.pnames = pnames
        self.params = [self.var(("param", n), n) for n in pnames]
        self.cur = {n: {self.ids[("param", n)]} for n in pnames}

    # variables ----------------------------------------------------------------------------------------------
    def var(self, key, display):
        if key not in self.ids:
            self.ids[key] = len(self.names)
            self.names.append(display)
        return self.ids[key]

    def emit(self, s):
        k = repr(s)
        if k not in self.seen:
            self.seen.add(k)
            self.prog.append(s)

    def assign(self, x, srcs):
        ded = []
        for t in srcs:
            if t not in ded:
                ded.append(t)
        self.emit(("assign", x, tuple(ded)))

    def store(self, x, cells):
        for c in cells:
            self.emit(("store", x, c))

    def tmp(self, node, srcs, tag="t"):
        t = self.var(("tmp", id(node), tag), f"{tag}@{getattr(node, 'lineno', 0)}:{getattr(node, 'col_offset', 0)}")
        self.assign(t, srcs)
        return t

    def define(self, name, node, srcs):
        v = self.var(("def", id(node), name), f"{name}@{getattr(node, 'lineno', 0)}")
        self.assign(v, srcs)
        self.cur[name] = {v}

    def define_container(self, name, node, elem_srcs):
        """`name = [..] / {..} / (..)`: the container itself is a new object, its elements live in a companion variable"""
        v = self.var(("def", id(node), name), f"{name}@{getattr(node, 'lineno', 0)}")
        k = self.var(("elems", id(node), name), f"{name}@{getattr(node, 'lineno', 0)}.elems")
        self.assign(v, [])
        self.assign(k, elem_srcs)
        self.comp[v] = k
        self.cur[name] = {v}

    def atoms(self, e):
        """variables standing for the value of e (all cells)"""
        if isinstance(e, ast.Name) and e.id in self.cur:
            vs = sorted(self.cur[e.id])
            return vs + [self.comp[v] for v in vs if v in self.comp]
        srcs = self.ev(e)
        if not srcs:
            return []
        return [self.tmp(e, srcs)]

    # expressions: return the sources the value may share --------------------------------------------------------
    def dotted(self, e):
        if isinstance(e, ast.Name):
            return e.id
        if isinstance(e, ast.Attribute):
            b = self.dotted(e.value)
            return None if b is None else b + "." + e.attr
        return None

    def is_global(self, e):
        d = self.dotted(e)
        return d is not None and d.split(".")[0] not in self.cur

    def ev(self, e):
        if e is None or isinstance(e, (ast.Constant, ast.Slice)):
            if isinstance(e, ast.Slice):
                for p in (e.lower, e.upper, e.step):
                    self.ev(p)
            return []
        if isinstance(e, ast.Name):
            if e.id in self.cur:
                return [t for v in self.atoms(e) for t in all_of(v)]
            return []   # module global / builtin: not a parameter object
        if isinstance(e, ast.Attribute):
            if self.is_global(e):
                return []
            if e.attr in PROJ:
                return [t for v in self.atoms(e.value) for t in proj_of(v, PROJ[e.attr])]
            return [t for v in self.atoms(e.value) for t in all_of(v) + [(v, "held", "attrs")]]
        if isinstance(e, ast.Subscript):
            self.ev(e.slice)
            return [t for v in self.atoms(e.value) for t in all_of(v) + [(v, "held", "attrs")]]
        if isinstance(e, (ast.BinOp,)):
            self.ev(e.left), self.ev(e.right)
            return []
        if isinstance(e, ast.UnaryOp):
            self.ev(e.operand)
            return []
        if isinstance(e, ast.Compare):
            self.ev(e.left)
            for c in e.comparators:
                self.ev(c)
            return []
        if isinstance(e, ast.BoolOp):
            return [t for v in e.values for t in self.ev(v)]
        if isinstance(e, ast.IfExp):
            self.ev(e.test)
            return self.ev(e.body) + self.ev(e.orelse)
        if isinstance(e, (ast.List, ast.Tuple, ast.Set)):
            return [t for v in e.elts for t in self.ev(v)]
        if isinstance(e, ast.Starred):
            return self.ev(e.value)
        if isinstance(e, ast.Dict):
            out = []
            for k, v in zip(e.keys, e.values):
                out += self.ev(k) if k is not None else []
                out += self.ev(v)
            return out
        if isinstance(e, ast.JoinedStr):
            for v in e.values:
                self.ev(v)
            return []
        if isinstance(e, ast.FormattedValue):
            self.ev(e.value)
            return []
        if isinstance(e, (ast.ListComp, ast.SetComp, ast.GeneratorExp, ast.DictComp)):
            saved = {k: set(v) for k, v in self.cur.items()}
            for g in e.generators:
                self.bind(g.target, g.iter, self.ev(g.iter))
                for c in g.ifs:
                    self.ev(c)
            if isinstance(e, ast.DictComp):
                out = self.ev(e.key) + self.ev(e.value)
            else:
                out = self.ev(e.elt)
            out = [(self.tmp(e, out, "comp"), c, c) for c in CELLS] if out else []
            self.cur = saved
            return out
        if isinstance(e, ast.Call):
            return self.call(e)
        raise Untranslatable(f"expression {type(e).__name__} at line {getattr(e, 'lineno', '?')}")

    def arg_exprs(self, e):
        return [(None, a) for a in e.args] + [(k.arg, k.value) for k in e.keywords]

    def call_summary(self, e, callee, recv_atoms):
        """a call of a translated library function: stores per its computed write-set, result may share everything"""
        if callee not in self.summaries:
            raise Untranslatable(f"callee {callee} not translated")
        pn, summ = self.summaries[callee]
        self.calls.append((callee, summ))
        actual = {}
        pos = list(pn)
        if recv_atoms is not None:
            actual[pos[0]] = recv_atoms
            pos = pos[1:]
        out = []
        i = 0
        for kw, a in self.arg_exprs(e):
            at = self.atoms(a)
            out += [t for v in at for t in all_of(v)]
            if isinstance(a, ast.Starred) or (kw is None and isinstance(a, ast.Dict)):
                raise Untranslatable("starred argument to a translated callee")
            if kw is None:
                if i < len(pos):
                    actual[pos[i]] = at
                i += 1
            elif kw in pn:
                actual[kw] = at
            else:
                raise Untranslatable(f"keyword {kw} not a parameter of {callee}")
        if recv_atoms is not None:
            out += [t for v in recv_atoms for t in all_of(v)]
        for (pi, c) in summ:
            for v in actual.get(pn[pi], []):
                self.store(v, [c])
        return out

    def call(self, e):
        f = e.func
        d = self.dotted(f)
        if isinstance(f, ast.Name) and f.id in CALLEE_FUNCS and f.id not in self.cur:
            callee = CALLEE_FUNCS[f.id]
            if callee == "coords_init":   # constructor: `self` is a new object
                t = self.var(("tmp", id(e), "new"), f"new@{e.lineno}")
                self.assign(t, [])
                return self.call_summary(e, callee, [t]) + all_of(t)
            return self.call_summary(e, callee, None)
        if isinstance(f, ast.Attribute) and f.attr in CALLEE_METHODS and not self.is_global(f):
            return self.call_summary(e, CALLEE_METHODS[f.attr], self.atoms(f.value))
        args = self.arg_exprs(e)
        if d is not None and self.is_global(f):
            argsrc = [self.ev(a) for _, a in args]
            if d in FRESH_FUNCS:
                return []
            if d in VIEW_FUNCS:
                out = []
                for a in argsrc:
                    if a:
                        t = self.tmp(e, a, f"arg{len(out)}")
                        out += cells_of(t, ["values"])
                return out
            if d in ALIAS_FUNCS:
                return [t for a in argsrc for t in a]
            if d not in self.unknown:
                self.unknown.append(d)
            return [t for a in argsrc for t in a]
        if isinstance(f, ast.Attribute):
            m = f.attr
            recv = self.atoms(f.value)
            if m == "copy":
                deep = [a for k, a in args if k == "deep" or k is None]
                if len(deep) == 1 and isinstance(deep[0], ast.Constant) and deep[0].value is True:
                    return []
                if len(deep) > 1 or (deep and not isinstance(deep[0], ast.Constant)):
                    raise Untranslatable("copy(...) with a non-literal deep argument")
            argat = [self.atoms(a) for _, a in args]
            flat = [v for a in argat for v in a]
            if m in FRESH_METHODS:
                return []
            if m in SHALLOW_METHODS:
                return [t for v in recv + flat for t in cells_of(v, ["values"])]
            if m in SHARE_VAE_METHODS:
                return [t for v in recv for t in cells_of(v, ["values", "attrs", "encoding"])] + [
                    t for v in flat for t in all_of(v)]
            if m in MUTATING_METHODS:
                if isinstance(f.value, ast.Name) and f.value.id in self.cur:
                    own = sorted(self.cur[f.value.id])
                    for v in own:
                        self.store(v, CELLS)
                        k = self.comp.get(v, v)      # a literal container keeps what it is given among its elements
                        self.assign(k, all_of(k) + [t for w in flat for t in all_of(w)])
                else:
                    for v in recv:
                        self.store(v, CELLS)
                    root = f.value
                    while isinstance(root, (ast.Attribute, ast.Subscript, ast.Call)):
                        root = root.func if isinstance(root, ast.Call) else root.value
                    if isinstance(root, ast.Name) and root.id in self.cur:   # what is stored is HELD by the root object
                        for r in sorted(self.cur[root.id]):
                            self.assign(r, all_of(r) + [(w, c, "held") for w in flat for c in CELLS])
                return [t for v in recv + flat for t in all_of(v)]
            if ("." + m) not in self.unknown:
                self.unknown.append("." + m)
            return [t for v in recv + flat for t in all_of(v)]
        if isinstance(f, ast.Name) and f.id in self.cur:   # a callable held in a local variable: unknown, may share everything
            if ("<local>" + f.id) not in self.unknown:
                self.unknown.append("<local>" + f.id)
            return self.ev(f) + [t for _, a in args for t in self.ev(a)]
        raise Untranslatable(f"call of {ast.unparse(f)[:40]} at line {e.lineno}")

    # statements ---------------------------------------------------------------------------------------------
    def bind(self, target, node, srcs):
        if isinstance(target, ast.Name):
            self.define(target.id, target, srcs)
        elif isinstance(target, (ast.Tuple, ast.List)):
            for el in target.elts:
                self.bind(el, node, srcs)
        elif isinstance(target, ast.Starred):
            self.bind(target.value, node, srcs)
        elif isinstance(target, ast.Attribute):
            base = self.atoms(target.value)
            if self.is_global(target.value):
                raise Untranslatable(f"assignment to an attribute of a global at line {target.lineno}")
            val = self.tmp(target, srcs, "val") if srcs else None
            if target.attr in PROJ:
                c = PROJ[target.attr]
                for v in base:
                    self.store(v, [c])
                if target.attr not in SETTER_COPIES and val is not None:
                    self.absorb(target, [(val, c2, c) for c2 in CELLS])
            else:   # a plain Python attribute: the instance dictionary is cell `attrs`; the object now holds the value
                for v in base:
                    self.store(v, ["attrs"])
                if val is not None:   # the object now HOLDS the value: its attrs go to cell `held`, not to the own dictionary
                    self.absorb(target, [(val, c2, c2) for c2 in CELLS if c2 != "attrs"] + [(val, "attrs", "held")])
        elif isinstance(target, ast.Subscript):
            self.ev(target.slice)
            base = self.atoms(target.value)
            if self.is_global(target.value):
                raise Untranslatable(f"item assignment on a global at line {target.lineno}")
            named = isinstance(target.slice, ast.Constant) and isinstance(target.slice.value, str) or (
                isinstance(target.slice, ast.Attribute) and self.is_global(target.slice))
            val = self.tmp(target, srcs, "val") if srcs else None
            for v in base:
                self.store(v, ["coords", "dims"] if named else ["values", "coords", "dims"])
            if val is not None:
                self.absorb(target, cells_of(val, ["values"]) if named else all_of(val))
        else:
            raise Untranslatable(f"assignment target {type(target).__name__}")

    def absorb(self, target, extra):
        """`root….a = val` / `root…[k] = val`: the root variable gets a NEW version = the old object, now also sharing `extra`
        (the store itself was emitted on the old version; a root that is not a local name absorbs nothing)"""
        root = target.value
        while isinstance(root, (ast.Attribute, ast.Subscript)):
            root = root.value
        if isinstance(root, ast.Name) and root.id in self.cur and extra:
            old = self.atoms(root)
            comps = {v: self.comp[v] for v in sorted(self.cur[root.id]) if v in self.comp}
            self.define(root.id, target, [t for v in old for t in all_of(v)] + extra)
            if comps:
                nv = next(iter(self.cur[root.id]))
                self.comp[nv] = self.tmp(target, [t for k in comps.values() for t in all_of(k)], "elems")

    def merge(self, a, b):
        return {k: set(a.get(k, set())) | set(b.get(k, set())) for k in set(a) | set(b)}

    def block(self, stmts):
        for s in stmts:
            self.stmt(s)

    def loop(self, pre, body):
        state = {k: set(v) for k, v in self.cur.items()}
        for _ in range(8):
            self.cur = {k: set(v) for k, v in state.items()}
            pre()
            self.block(body)
            new = self.merge(state, self.cur)
            if new == state:
                break
            state = new
        else:
            raise Untranslatable("reaching definitions of a loop did not stabilise")
        self.cur = state

    def stmt(self, s):
        if isinstance(s, ast.Expr):
            self.ev(s.value)
        elif isinstance(s, ast.Assign):
            srcs = self.ev(s.value)
            for t in s.targets:
                empty_ctor = (isinstance(s.value, ast.Call) and isinstance(s.value.func, ast.Name) and not s.value.args
                              and not s.value.keywords and s.value.func.id in ("list", "dict", "set") and s.value.func.id not in self.cur)
                if isinstance(t, ast.Name) and (empty_ctor or isinstance(s.value, (ast.List, ast.Tuple, ast.Set, ast.Dict, ast.ListComp,
                                                                                  ast.SetComp, ast.DictComp))):
                    self.define_container(t.id, t, srcs)
                else:
                    self.bind(t, s, srcs)
        elif isinstance(s, ast.AnnAssign):
            if s.value is not None:
                self.bind(s.target, s, self.ev(s.value))
        elif isinstance(s, ast.AugAssign):
            self.ev(s.value)
            t = s.target
            if isinstance(t, ast.Name):
                if t.id not in self.cur:
                    raise Untranslatable(f"augmented assignment to global {t.id}")
                for v in sorted(self.cur[t.id]):
                    self.store(v, ["values"])
            elif isinstance(t, (ast.Attribute, ast.Subscript)):
                load = ast.copy_location(
                    ast.Attribute(t.value, t.attr, ast.Load()) if isinstance(t, ast.Attribute) else ast.Subscript(t.value, t.slice, ast.Load()), t)
                at = self.atoms(load)
                for v in at:
                    self.store(v, ["values"])      # `x[k] *= c` / `x.a *= c` operate IN PLACE on the object read
                self.bind(t, s, [q for v in at for q in all_of(v)])
            else:
                raise Untranslatable("augmented assignment target")
        elif isinstance(s, ast.If):
            self.ev(s.test)
            st0 = {k: set(v) for k, v in self.cur.items()}
            self.block(s.body)
            st1 = self.cur
            self.cur = {k: set(v) for k, v in st0.items()}
            self.block(s.orelse)
            self.cur = self.merge(st1, self.cur)
        elif isinstance(s, ast.For):
            it = self.ev(s.iter)
            self.loop(lambda: self.bind(s.target, s, it), s.body)
            self.block(s.orelse)
        elif isinstance(s, ast.While):
            self.loop(lambda: self.ev(s.test), s.body)
            self.block(s.orelse)
        elif isinstance(s, ast.With):
            for item in s.items:
                src = self.ev(item.context_expr)
                if item.optional_vars is not None:
                    self.bind(item.optional_vars, s, src)
            self.block(s.body)
        elif isinstance(s, ast.Try):
            st0 = {k: set(v) for k, v in self.cur.items()}
            self.block(s.body)
            after = self.merge(st0, self.cur)
            outs = [self.cur]
            for h in s.handlers:
                self.cur = {k: set(v) for k, v in after.items()}
                if h.name:
                    self.cur[h.name] = set()
                self.block(h.body)
                outs.append(self.cur)
            self.cur = outs[0]
            self.block(s.orelse)
            for o in outs[1:]:
                self.cur = self.merge(self.cur, o)
            self.block(s.finalbody)
        elif isinstance(s, ast.Return):
            self.ev(s.value)
        elif isinstance(s, ast.Raise):
            self.ev(s.exc)
        elif isinstance(s, ast.Assert):
            self.ev(s.test)
        elif isinstance(s, ast.Delete):
            for t in s.targets:
                if isinstance(t, ast.Name):
                    continue
                if isinstance(t, ast.Subscript):
                    for v in self.atoms(t.value):
                        self.store(v, ["values", "coords", "dims"])
                elif isinstance(t, ast.Attribute):
                    for v in self.atoms(t.value):
                        self.store(v, ["attrs"])
                else:
                    raise Untranslatable("del target")
        elif isinstance(s, (ast.Pass, ast.Break, ast.Continue)):
            pass
        elif isinstance(s, (ast.Import, ast.ImportFrom)):
            for al in s.names:
                self.cur.pop((al.asname or al.name).split(".")[0], None)
        else:
            raise Untranslatable(f"statement {type(s).__name__} at line {s.lineno}")


def cell(c):
    return "." + c


def lean_srcs(srcs):
    """compress into allOf / cellsOf / projOf where possible"""
    parts = []
    srcs = list(srcs)
    byvar = {}
    for (y, cy, cx) in srcs:
        byvar.setdefault(y, []).append((cy, cx))
    for y, lst in byvar.items():
        rest = list(lst)
        if all((c, c) in rest for c in CELLS):
            parts.append(f"allOf {y}")
            rest = [p for p in rest if p[0] != p[1]]
        for c in CELLS:
            if all((c, c2) in rest for c2 in CELLS):
                parts.append(f"projOf {y} {cell(c)}")
                rest = [p for p in rest if p[0] != c]
        same = [p for p in rest if p[0] == p[1]]
        if same:
            parts.append(f"cellsOf {y} [{', '.join(cell(p[0]) for p in same)}]")
        for p in rest:
            if p[0] != p[1]:
                parts.append(f"[({y}, {cell(p[0])}, {cell(p[1])})]")
    return " ++ ".join(parts) if parts else "[]"


def canon(srcs):
    """the list the Lean expression of lean_srcs denotes (same order), for the Python solver"""
    return list(srcs)


def translate_one(lean, path, qn, summaries):
    fn = find_func(path, qn)
    if fn.decorator_list and not all(isinstance(d, ast.Name) and d.id in ("staticmethod", "property") for d in fn.decorator_list):
        raise Untranslatable("decorated function")
    body = fn.body
    if body and isinstance(body[0], ast.Expr) and isinstance(body[0].value, ast.Constant) and isinstance(body[0].value.value, str):
        body = body[1:]
    for n in ast.walk(ast.Module(body=body, type_ignores=[])):
        if isinstance(n, (ast.FunctionDef, ast.Lambda, ast.Global, ast.Nonlocal, ast.ClassDef, ast.Yield, ast.YieldFrom,
                          ast.Await, ast.NamedExpr, ast.AsyncFor, ast.AsyncWith)):
            raise Untranslatable(f"{type(n).__name__} at line {getattr(n, 'lineno', '?')}")
    w = Walker(lean, fn, summaries)
    w.block(body)
    return w


def generate_frm(gen_dir):
    status = {}
    summaries = {}
    text = ("import WsVerif.Model.FrameIR\n/-! GENERATED by harness/translate_frm.py from the current source: FrameIR programs "
            "of the operations anchored by C17. -/\nnamespace WS.Gen\nopen WS.FrameIR\n\n")
    done = []
    for lean, path, qn in OPS:
        try:
            w = translate_one(lean, path, qn, summaries)
            ws = solve(w.params, w.prog)
            summaries[lean] = (w.pnames, [(w.params.index(v), c) for (v, c) in ws])
            text += f"/-- `{path}::{qn}`; variables: " + ", ".join(f"{i}={n}" for i, n in enumerate(w.names)).replace("-/", "- /") + " -/\n"
            text += f"def frm_{lean}_params : List Var := [{', '.join(str(v) for v in w.params)}]\n"
            text += f"def frm_{lean}_pnames : List String := [{', '.join(lean_str(n) for n in w.pnames)}]\n"
            text += f"def prog_{lean} : Prog := [\n"
            lines = []
            for s in w.prog:
                if s[0] == "assign":
                    lines.append(f"  .assign {s[1]} ({lean_srcs(s[2])})")
                else:
                    lines.append(f"  .store {s[1]} {cell(s[2])}")
            text += ",\n".join(lines) + "]\n"
            calls = []
            for c in w.calls:
                if c not in calls:
                    calls.append(c)
            text += f"def frm_{lean}_calls : List (String × List (Nat × Cell)) := [" + ", ".join(
                f"({lean_str(n)}, [{', '.join(f'({i}, {cell(c)})' for i, c in sm)}])" for n, sm in calls) + "]\n"
            text += f"def frm_{lean}_unknown : List String := [{', '.join(lean_str(u) for u in w.unknown)}]\n\n"
            status["frm_" + lean] = "ok"
            done.append(lean)
        except Exception as e:
            msg = f"{type(e).__name__}: {e}".replace("\n", " ").replace("-/", "- /")[:300]
            text += f"-- prog_{lean}: untranslatable: {msg}\n\n"
            status["frm_" + lean] = f"untranslatable: {msg}"
    text += f"def frm_translated : List String := [{', '.join(lean_str(n) for n in done)}]\n"
    text += "end WS.Gen\n"
    write_if_changed(gen_dir / "FrameKernels.lean", text)
    return status

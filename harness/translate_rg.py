"""T-tier, regridding (C08): `core.utils.unique_indices`, `core.utils.regrid_spec`, `SpecArray._interp_freq`,
`SpecArray.interp`, `SpecArray.interp_like` → Lean definitions in `lean/WsVerif/Gen/RgKernels.lean` (rewritten only if
changed).  Vocabulary (trusted reading of numpy/xarray): `Model/RgRt.lean` (namespace `WS.Rg`); bridges to
`Model/Regrid.lean` FOR ALL INPUTS: `Props/C08rg.lean` (`C08.genrg_*`), helper lemmas `Lemmas/RgBridge.lean`.

One spectrum (`Rg.Ds`: freq labels, dir labels, rows = frequencies, values `Option Rat`, none = NaN).  The two
`if … is not None:` blocks and the `maintain_m0` block of `regrid_spec` are translated STATEMENT BY STATEMENT by the typed
expression grammar below (anything else inside them ⇒ `Untranslatable`); the top-level statements of `regrid_spec` that are
not one of `dsout = dset.copy()`, the three blocks, `return dsout` are pinned verbatim (`rgRegrid_plumbing`), as are all
signatures, the bodies of `interp` / `interp_like` (pure forwarding) and the `attrs` names used.
"""
import ast

from .translate import Untranslatable, _module, body_stmts, find_func, lean_str, rat, write_if_changed

UTILS = "wavespectra/core/utils.py"
SPECARRAY = "wavespectra/specarray.py"
ATTRS = "wavespectra/core/attributes.yml"

DS, VEC, LDS, RAT, NAT, BOOL, ORAT, LNAT = "Rg.Ds", "Vec", "List Rg.Ds", "Rat", "Nat", "Bool", "Option Rat", "List Nat"
CMP = {ast.Lt: "<", ast.LtE: "≤", ast.Gt: ">", ast.GtE: "≥", ast.Eq: "=", ast.NotEq: "≠"}


def U(msg):
    return Untranslatable(msg)


def src(n):
    return ast.unparse(n)


def attrs_names():
    """top-level scalar entries `NAME: &NAME value` of core/attributes.yml (what `attrs.NAME` evaluates to)"""
    import re

    from .translate import REPO
    out = {}
    for line in (REPO / ATTRS).read_text().splitlines():
        m = re.fullmatch(r"([A-Z_]+):\s*(?:&[A-Z_]+\s+)?([A-Za-z_][A-Za-z0-9_]*)\s*", line)
        if m:
            if m.group(1) in out:
                raise U(f"attrs.{m.group(1)} defined twice")
            out[m.group(1)] = m.group(2)
    return out


def intconst(e):
    if isinstance(e, ast.Constant) and type(e.value) is int:
        return e.value
    if isinstance(e, ast.UnaryOp) and isinstance(e.op, ast.USub) and isinstance(e.operand, ast.Constant) \
            and type(e.operand.value) is int:
        return -e.operand.value
    raise U(f"integer literal expected: `{src(e)}`")


def leanint(k):
    return f"({k} : Int)"


class Tr:
    def __init__(self, env, an):
        self.env = dict(env)
        self.an = an

    def dimname(self, e):
        """a dimension name: a string literal or `attrs.X`"""
        if isinstance(e, ast.Constant) and isinstance(e.value, str):
            return e.value
        if isinstance(e, ast.Attribute) and isinstance(e.value, ast.Name) and e.value.id == "attrs" and e.attr in self.an:
            return self.an[e.attr]
        if isinstance(e, ast.Name) and self.env.get(e.id, ("", ""))[1] == "DIM":
            return self.env[e.id][0]
        raise U(f"dimension name expected: `{src(e)}`")

    def want(self, e, ty):
        s, t = self.expr(e)
        if t != ty:
            raise U(f"`{src(e)}` has type {t}, {ty} expected")
        return s

    def num(self, e):
        """a numeric literal as Rat"""
        if isinstance(e, ast.Constant) and type(e.value) in (int, float):
            return rat(e.value)
        raise U(f"numeric literal expected: `{src(e)}`")

    def expr(self, e):
        if isinstance(e, ast.Name):
            if e.id in self.env and self.env[e.id][1] != "DIM":
                return self.env[e.id]
            raise U(f"unknown name `{e.id}`")
        if isinstance(e, ast.Constant) and type(e.value) in (int, float):
            return rat(e.value), RAT
        if isinstance(e, ast.List):
            return "[" + ", ".join(self.want(x, DS) for x in e.elts) + "]", LDS
        if isinstance(e, ast.Attribute):
            if e.attr in ("dir", "freq"):
                return f"(Rg.{e.attr}C {self.want(e.value, DS)})", VEC
            if e.attr == "size":
                return f"(List.length {self.want(e.value, VEC)})", NAT
            raise U(f"attribute `{src(e)}`")
        if isinstance(e, ast.Subscript):
            d = self.dimname(e.slice)
            if d in ("dir", "freq"):
                return f"(Rg.{d}C {self.want(e.value, DS)})", VEC
            raise U(f"subscript `{src(e)}`")
        if isinstance(e, ast.BinOp):
            return self.binop(e)
        if isinstance(e, ast.Compare):
            if len(e.ops) != 1 or type(e.ops[0]) not in CMP:
                raise U(f"comparison `{src(e)}`")
            a, ta = self.expr(e.left)
            b, tb = self.expr(e.comparators[0])
            if ta == NAT and isinstance(e.comparators[0], ast.Constant):
                b, tb = str(intconst(e.comparators[0])), NAT
            if ta != tb or ta not in (RAT, NAT):
                raise U(f"comparison of {ta} with {tb}: `{src(e)}`")
            return f"(decide ({a} {CMP[type(e.ops[0])]} {b}))", BOOL
        if isinstance(e, ast.BoolOp):
            op = " || " if isinstance(e.op, ast.Or) else " && "
            return "(" + op.join(self.want(v, BOOL) for v in e.values) + ")", BOOL
        if isinstance(e, ast.Call):
            return self.call(e)
        raise U(f"expression `{src(e)}`")

    def binop(self, e):
        if isinstance(e.op, ast.Pow):
            if intconst(e.right) < 0:
                raise U("negative power")
            return f"({self.want(e.left, RAT)} ^ {intconst(e.right)})", RAT
        a, ta = self.expr(e.left)
        if ta == VEC and type(e.op) in (ast.Mod, ast.Add, ast.Sub):
            f = {ast.Mod: "modV", ast.Add: "addV", ast.Sub: "subV"}[type(e.op)]
            return f"(Rg.{f} {a} {self.num(e.right)})", VEC
        b, tb = self.expr(e.right)
        if isinstance(e.op, ast.Mult) and ta == RAT and tb == DS:
            return f"(Rg.scaleDs {a} {b})", DS
        if isinstance(e.op, ast.Mult) and ta == DS and tb == ORAT:
            return f"(Rg.mulScale {a} {b})", DS
        if isinstance(e.op, ast.Div) and ta == RAT and tb == RAT:
            return f"(Rg.divG {a} {b})", ORAT
        raise U(f"operator in `{src(e)}` ({ta}, {tb})")

    def kw(self, e, names):
        if e.args and names is not None:
            raise U(f"positional arguments in `{src(e)}`")
        got = {k.arg: k.value for k in e.keywords}
        if None in got or (names is not None and sorted(got) != sorted(names)):
            raise U(f"keywords of `{src(e)}`: {sorted(map(str, got))}, expected {sorted(names)}")
        return got

    def call(self, e):
        f = e.func
        if isinstance(f, ast.Name):
            if f.id == "len" and len(e.args) == 1 and not e.keywords:
                return f"(List.length {self.want(e.args[0], LDS)})", NAT
            if f.id == "unique_indices" and len(e.args) == 2 and not e.keywords:
                if self.dimname(e.args[1]) != "dir":
                    raise U("unique_indices on another dimension than dir")
                return f"(rgUniqueIndices {self.want(e.args[0], DS)})", DS
            raise U(f"call `{src(e)}`")
        if not isinstance(f, ast.Attribute):
            raise U(f"call `{src(e)}`")
        m = f.attr
        if isinstance(f.value, ast.Name) and f.value.id == "xr" and m == "concat":
            if len(e.args) != 1:
                raise U(f"`{src(e)}`")
            d = self.dimname(self.kw(ast.Call(f, [], e.keywords), ["dim"])["dim"])
            if d not in ("dir", "freq"):
                raise U(f"concat along {d}")
            return f"(Rg.concat{d.capitalize()} {self.want(e.args[0], LDS)})", DS
        if m == "hs" and not e.args and not e.keywords and isinstance(f.value, ast.Attribute) and f.value.attr == "spec":
            x = self.want(f.value.value, DS)
            return f"(rgHs sqrt {x})", RAT
        if m in ("min", "max") and not e.args and not e.keywords:
            return f"(Rg.a{m} {self.want(f.value, VEC)})", RAT
        x = self.want(f.value, DS)
        if m == "copy" and not e.args and not e.keywords:
            return x, DS
        if m == "sortby" and len(e.args) == 1 and not e.keywords and self.dimname(e.args[0]) == "dir":
            return f"(Rg.sortbyDir {x})", DS
        if m == "assign_coords" and len(e.args) == 1 and not e.keywords and isinstance(e.args[0], ast.Dict) \
                and len(e.args[0].keys) == 1 and self.dimname(e.args[0].keys[0]) == "dir":
            return f"(Rg.assignDir {x} {self.want(e.args[0].values[0], VEC)})", DS
        if m == "isel":
            got = self.kw(e, None)
            if len(got) == 1 and not e.args and list(got)[0] in ("dir", "freq"):
                d = list(got)[0]
                v = got[d]
                if isinstance(v, ast.Name) and self.env.get(v.id, ("", ""))[1] == LNAT and d == "dir":
                    return f"(Rg.iselDirL {x} {v.id})", DS
                return f"(Rg.isel{d.capitalize()} {x} {leanint(intconst(v))})", DS
            raise U(f"`{src(e)}`")
        if m == "interp":
            got = {k.arg: k.value for k in e.keywords}
            if e.args or None in got:
                raise U(f"`{src(e)}`")
            if sorted(got) == ["assume_sorted", "dir"] and src(got["assume_sorted"]) == "True":
                return f"(Rg.interpDir {x} {self.want(got['dir'], VEC)})", DS
            if sorted(got) == ["assume_sorted", "freq", "kwargs"] and src(got["assume_sorted"]) == "False" \
                    and isinstance(got["kwargs"], ast.Dict) and len(got["kwargs"].keys) == 1 \
                    and src(got["kwargs"].keys[0]) == "'fill_value'":
                return f"(Rg.interpFreq {x} {self.want(got['freq'], VEC)} {self.num(got['kwargs'].values[0])})", DS
            raise U(f"`{src(e)}`")
        raise U(f"method call `{src(e)}`")

    # ---- statements ---------------------------------------------------------------------------------
    def assigned(self, stmts):
        out = []
        for s in stmts:
            if isinstance(s, ast.Assign) and len(s.targets) == 1:
                t = s.targets[0]
                if isinstance(t, ast.Name):
                    out.append(t.id)
                elif isinstance(t, ast.Subscript) and isinstance(t.value, ast.Name):
                    out.append(t.value.id)
                else:
                    raise U(f"assignment target `{src(t)}`")
            elif isinstance(s, ast.Expr) and isinstance(s.value, ast.Call) and isinstance(s.value.func, ast.Attribute) \
                    and s.value.func.attr == "append" and isinstance(s.value.func.value, ast.Name):
                out.append(s.value.func.value.id)
            elif isinstance(s, ast.If):
                out += self.assigned(s.body) + self.assigned(s.orelse)
            else:
                raise U(f"statement `{src(s)[:60]}`")
        return out

    def block(self, stmts, result, ind):
        """let-chain for `stmts`, ending with the value of variable `result`"""
        pad = " " * ind
        lines = []
        for s in stmts:
            if isinstance(s, ast.Assign) and len(s.targets) == 1 and isinstance(s.targets[0], ast.Name):
                v, t = self.expr(s.value)
                self.env[s.targets[0].id] = (s.targets[0].id, t)
                lines.append(f"{pad}let {s.targets[0].id} : {t} := {v}")
            elif isinstance(s, ast.Assign) and len(s.targets) == 1 and isinstance(s.targets[0], ast.Subscript) \
                    and isinstance(s.targets[0].value, ast.Name):
                nm = s.targets[0].value.id
                if self.env.get(nm, ("", ""))[1] != DS:
                    raise U(f"`{src(s)}`")
                d = self.dimname(s.targets[0].slice)
                if d == "dir":
                    lines.append(f"{pad}let {nm} : {DS} := (Rg.assignDir {nm} {self.want(s.value, VEC)})")
                elif d == "freq":
                    lines.append(f"{pad}let {nm} : {DS} := (Rg.setFreq {nm} {self.num(s.value)})")
                else:
                    raise U(f"`{src(s)}`")
            elif isinstance(s, ast.Expr) and isinstance(s.value, ast.Call) and isinstance(s.value.func, ast.Attribute) \
                    and s.value.func.attr == "append" and isinstance(s.value.func.value, ast.Name) \
                    and len(s.value.args) == 1 and not s.value.keywords:
                nm = s.value.func.value.id
                if self.env.get(nm, ("", ""))[1] != LDS:
                    raise U(f"`{src(s)}`")
                lines.append(f"{pad}let {nm} : {LDS} := ({nm} ++ [{self.want(s.value.args[0], DS)}])")
            elif isinstance(s, ast.If) and not s.orelse:
                c = self.want(s.test, BOOL)
                live = sorted({n for n in self.assigned(s.body) if n in self.env})
                if len(live) != 1:
                    raise U(f"`if {src(s.test)}` changes {live}: exactly one outer variable expected")
                v = live[0]
                t = self.env[v][1]
                saved = dict(self.env)
                inner = self.block(s.body, v, ind + 4)
                if self.env[v][1] != t:
                    raise U(f"`{v}` changes type in `if {src(s.test)}`")
                self.env = saved
                lines.append(f"{pad}let {v} : {t} :=\n{pad}  (if {c} then\n{inner}\n{pad}  else {v})")
            else:
                raise U(f"statement `{src(s)[:80]}`")
        if result not in self.env:
            raise U(f"`{result}` never assigned")
        lines.append(f"{pad}{result}")
        return "\n".join(lines)


def sig(fn):
    a = fn.args
    if a.vararg or a.kwarg or a.kwonlyargs or a.posonlyargs:
        raise U("signature with */**")
    names = [x.arg for x in a.args]
    defs = [""] * (len(names) - len(a.defaults)) + [src(d) for d in a.defaults]
    return list(zip(names, defs))


def sig_def(lean, s):
    return f"def {lean}_sig : List (String × String) := [" + ", ".join(f"({lean_str(a)}, {lean_str(b)})" for a, b in s) + "]\n"


def strs_def(lean, l):
    return f"def {lean} : List String := [" + ", ".join(lean_str(x) for x in l) + "]\n"


def nodoc(fn):
    return body_stmts(fn)


def k_attrs():
    an = attrs_names()
    for k, v in (("DIRNAME", "dir"), ("FREQNAME", "freq")):
        if an.get(k) != v:
            raise U(f"attrs.{k} is {an.get(k)!r}, the vocabulary is for {v!r}")
    return "def rgAttrs : List (String × String) := [" + ", ".join(
        f"({lean_str(k)}, {lean_str(an[k])})" for k in ("DIRNAME", "FREQNAME")) + "]\n"


def k_unique():
    fn = find_func(UTILS, "unique_indices")
    s = sig(fn)
    if [a for a, _ in s] != ["ds", "dim"]:
        raise U(f"signature {s}")
    st = nodoc(fn)
    if len(st) != 2:
        raise U("two statements expected")
    a, r = st
    ok = (isinstance(a, ast.Assign) and src(a.targets[0]) == "(_, index)" and isinstance(a.value, ast.Call)
          and src(a.value.func) == "np.unique" and len(a.value.args) == 1 and src(a.value.args[0]) == "ds[dim]"
          and [(k.arg, src(k.value)) for k in a.value.keywords] == [("return_index", "True")])
    if not ok:
        raise U(f"`{src(a)}`")
    tr = Tr({"ds": ("ds", DS), "dim": ("dir", "DIM"), "index": ("index", LNAT)}, attrs_names())
    idx = f"(Rg.npUniqueIndex {tr.want(a.value.args[0], VEC)})"
    if not (isinstance(r, ast.Return) and isinstance(r.value, ast.Call) and src(r.value.func) == "ds.isel" and not r.value.args
            and len(r.value.keywords) == 1 and r.value.keywords[0].arg is None and src(r.value.keywords[0].value) == "{dim: index}"):
        raise U(f"`{src(r)}`")
    out = sig_def("rgUniqueIndices", s)
    out += "/-- `core.utils.unique_indices(ds, \"dir\")` -/\n"
    out += f"def rgUniqueIndices (ds : Rg.Ds) : Rg.Ds :=\n  let index : List Nat := {idx}\n  (Rg.iselDirL ds index)\n"
    return out


def is_none_test(t, name):
    return isinstance(t, ast.Compare) and src(t) == f"{name} is not None"


def k_regrid():
    fn = find_func(UTILS, "regrid_spec")
    s = sig(fn)
    if [a for a, _ in s] != ["dset", "freq", "dir", "maintain_m0"]:
        raise U(f"signature {s}")
    an = attrs_names()
    plumbing, slots, order = [], {}, []
    for st in nodoc(fn):
        key = None
        if isinstance(st, ast.Assign) and src(st) == "dsout = dset.copy()":
            key = "copy"
        elif isinstance(st, ast.If) and not st.orelse and is_none_test(st.test, "dir"):
            key = "dir"
        elif isinstance(st, ast.If) and not st.orelse and is_none_test(st.test, "freq"):
            key = "freq"
        elif isinstance(st, ast.If) and not st.orelse and src(st.test) == "maintain_m0":
            key = "m0"
        elif isinstance(st, ast.Return) and src(st) == "return dsout":
            key = "return"
        if key is None:
            plumbing.append(src(st))
        else:
            if key in slots:
                raise U(f"two `{key}` statements")
            slots[key] = st
            order.append(key)
    if order != ["copy", "dir", "freq", "m0", "return"]:
        raise U(f"statement order {order}")
    out = sig_def("rgRegrid", s) + strs_def("rgRegrid_plumbing", plumbing)
    tr = Tr({"dsout": ("dsout", DS), "dir": ("dir", VEC)}, an)
    out += "/-- the block `if dir is not None:` of `regrid_spec` -/\n"
    out += "def rgDirBlock (dsout : Rg.Ds) (dir : Vec) : Rg.Ds :=\n" + tr.block(slots["dir"].body, "dsout", 2) + "\n\n"
    tr = Tr({"dsout": ("dsout", DS), "freq": ("freq", VEC)}, an)
    out += "/-- the block `if freq is not None:` of `regrid_spec` -/\n"
    out += "def rgFreqBlock (dsout : Rg.Ds) (freq : Vec) : Rg.Ds :=\n" + tr.block(slots["freq"].body, "dsout", 2) + "\n\n"
    tr = Tr({"dsout": ("dsout", DS), "dset": ("dset", DS)}, an)
    out += "/-- `X.spec.hs()` on a NaN-free spectrum through the regenerated `Gen.xrHs` (a spectrum with NaN has no finite value here) -/\n"
    out += ("def rgHs (sqrt : Rat → Rat) (ds : Rg.Ds) : Rat :=\n  Gen.xrHs sqrt (Rg.freqC ds) (Rg.dirC ds) ((Rg.fin? ds).getD []) "
            "(Gen.xrDf (Rg.freqC ds)) (Gen.xrDd (Rg.dirC ds)) Gen.xrHs_tail_default\n\n")
    out += "/-- the block `if maintain_m0:` of `regrid_spec` -/\n"
    out += "def rgM0Block (sqrt : Rat → Rat) (dset dsout : Rg.Ds) : Rg.Ds :=\n" + tr.block(slots["m0"].body, "dsout", 2) + "\n\n"
    out += "/-- `regrid_spec` for one spectrum with a direction dimension: the translated statements in source order -/\n"
    out += ("def rgRegrid (sqrt : Rat → Rat) (dset : Rg.Ds) (freq dir : Option Vec) (maintain_m0 : Bool) : Rg.Ds :=\n"
            "  let dsout : Rg.Ds := dset\n"
            "  let dsout : Rg.Ds := match dir with\n    | some dir => rgDirBlock dsout dir\n    | none => dsout\n"
            "  let dsout : Rg.Ds := match freq with\n    | some freq => rgFreqBlock dsout freq\n    | none => dsout\n"
            "  let dsout : Rg.Ds := if maintain_m0 then rgM0Block sqrt dset dsout else dsout\n"
            "  dsout\n")
    return out


def k_interp_freq():
    fn = find_func(SPECARRAY, "SpecArray._interp_freq")
    s = sig(fn)
    if [a for a, _ in s] != ["self", "fint"]:
        raise U(f"signature {s}")
    st = nodoc(fn)
    want = [
        None,
        "ifreq = self.freq.searchsorted(fint)",
        "df = np.diff(self.freq.isel(freq=[ifreq - 1, ifreq]))[0]",
        None, None,
        "right = right.assign_coords({'freq': [fint]})",
        "left = left.assign_coords({'freq': [fint]})",
        None,
    ]
    if len(st) != len(want):
        raise U(f"{len(st)} statements, {len(want)} expected")
    for a, w in zip(st, want):
        if w is not None and src(a) != w:
            raise U(f"`{src(a)}` where `{w}` was expected")
    g = st[0]
    if not (isinstance(g, ast.If) and not g.orelse and len(g.body) == 1 and isinstance(g.body[0], ast.Raise)
            and isinstance(g.body[0].exc, ast.Call) and src(g.body[0].exc.func) == "ValueError"
            and isinstance(g.test, ast.UnaryOp) and isinstance(g.test.op, ast.Not) and isinstance(g.test.operand, ast.Compare)):
        raise U(f"range check `{src(g)[:60]}`")
    c = g.test.operand
    terms = [c.left] + list(c.comparators)

    def sc(e):
        t = src(e)
        if t == "fint":
            return "fint"
        if t in ("self.freq.min()", "self.freq.max()"):
            return f"(Rg.a{t[-5:-2]} freq)"
        if t == "self.freq[ifreq - 1]":
            return "(getR freq (ifreq - 1))"
        if t == "self.freq[ifreq]":
            return "(getR freq ifreq)"
        raise U(f"scalar `{t}`")
    if any(type(o) not in CMP for o in c.ops):
        raise U("comparison operator")
    chain = " && ".join(f"decide ({sc(a)} {CMP[type(o)]} {sc(b)})" for a, o, b in zip(terms, c.ops, terms[1:]))

    def side(a, name):
        # name = self._obj.isel(freq=[IDX]) * (A - B)
        if not (isinstance(a, ast.Assign) and src(a.targets[0]) == name and isinstance(a.value, ast.BinOp)
                and isinstance(a.value.op, ast.Mult) and isinstance(a.value.left, ast.Call)
                and src(a.value.left.func) == "self._obj.isel" and not a.value.left.args
                and len(a.value.left.keywords) == 1 and a.value.left.keywords[0].arg == "freq"
                and isinstance(a.value.left.keywords[0].value, ast.List) and len(a.value.left.keywords[0].value.elts) == 1
                and isinstance(a.value.right, ast.BinOp) and type(a.value.right.op) in (ast.Sub, ast.Add)):
            raise U(f"`{src(a)}`")
        ix = src(a.value.left.keywords[0].value.elts[0])
        if ix not in ("ifreq", "ifreq - 1"):
            raise U(f"row index `{ix}`")
        op = "-" if isinstance(a.value.right.op, ast.Sub) else "+"
        w = f"({sc(a.value.right.left)} {op} {sc(a.value.right.right)})"
        return f"(List.map (fun v => v * {w}) (List.getD obj ({ix}) []))"
    right = side(st[3], "right")
    left = side(st[4], "left")
    r = st[7]
    if not (isinstance(r, ast.Return) and isinstance(r.value, ast.BinOp) and isinstance(r.value.op, ast.Div)
            and src(r.value.right) == "df" and isinstance(r.value.left, ast.BinOp) and isinstance(r.value.left.op, ast.Add)
            and {src(r.value.left.left), src(r.value.left.right)} == {"left", "right"}):
        raise U(f"`{src(r)}`")
    a, b = src(r.value.left.left), src(r.value.left.right)
    out = sig_def("rgInterpFreq", s)
    out += "/-- `SpecArray._interp_freq` on a NaN-free spectrum: the interpolated row, or `ValueError` -/\n"
    out += ("def rgInterpFreq (freq : Vec) (obj : Mat) (fint : Rat) : Except Err Vec :=\n"
            f"  if !({chain}) then .error .valueError else\n"
            "  let ifreq : Nat := Rg.searchsorted freq fint\n"
            "  let df : Rat := (getR freq ifreq) - (getR freq (ifreq - 1))\n"
            f"  let right : Vec := {right}\n"
            f"  let left : Vec := {left}\n"
            f"  .ok (List.map (fun v => v / df) (List.zipWith (fun x y => x + y) {a} {b}))\n")
    return out


def k_forward():
    out = ""
    for q, lean in (("SpecArray.interp", "rgInterp"), ("SpecArray.interp_like", "rgInterpLike")):
        fn = find_func(SPECARRAY, q)
        out += sig_def(lean, sig(fn)) + strs_def(lean + "_src", [src(x) for x in nodoc(fn)])
    return out


HEADER = """import WsVerif.Gen.Prelude
import WsVerif.Gen.XrKernels
import WsVerif.Model.RgRt
/-! GENERATED by harness/translate_rg.py from wavespectra/core/utils.py, specarray.py — do not edit.
    Vocabulary: Model/RgRt.lean.  Bridged to Model/Regrid.lean in Props/C08rg.lean (`genrg_*`). -/
set_option linter.unusedVariables false
namespace WS.Gen
open WS
"""

RG_KERNELS = [("attrs", k_attrs), ("unique_indices", k_unique), ("regrid_spec", k_regrid),
              ("interp_freq", k_interp_freq), ("forward", k_forward)]


def generate_rg(gen_dir):
    status = {}
    text = HEADER
    for name, kf in RG_KERNELS:
        try:
            text += kf() + "\n"
            status["rg_" + name] = "ok"
        except Exception as e:  # Untranslatable or a malformed tree: the tie is broken, the bridges will not build
            msg = f"{type(e).__name__}: {e}".replace("\n", " ")[:300]
            text += f"-- {name}: untranslatable: {msg.replace('-/', '- /').replace('/-', '/ -')}\n\n"
            status["rg_" + name] = f"untranslatable: {msg}"
    text += "end WS.Gen\n"
    write_if_changed(gen_dir / "RgKernels.lean", text)
    return status

"""T-tier, tracking grammar: the WHOLE bodies of `dfp_wsea`, `dfp_swell`, `match_consecutive_partitions` and
`np_track_partitions` (wavespectra/partition/tracking.py) → Lean definitions written to
`lean/WsVerif/Gen/TrackKernels.lean` (only if changed).  Called from `translate.generate()` after `generate_xr`.

Every generated definition is identified with the hand-written model (`Model/Track.lean`, `Model/TrackNp.lean`) by a
theorem `gentrk_*` of `Props/C19trk.lean`, FOR ALL INPUTS, so a changed operator, comparison, literal, index,
threshold selection, loop body, default … in the repository breaks an obligation of C19 on the next run.

Target vocabulary: `Model/TrkRt.lean` (namespace `WS.Trk`), one definition per accepted idiom.  Conventions
(the *reading* of numpy that is trusted; everything after it is proved):

* a float is `Rat` when it can not be NaN in the model (the scalar arguments), otherwise `Option Rat` (`none` = NaN);
  array elements are always `Option Rat`.  Arithmetic propagates NaN, `< <= > >= ==` with NaN are `False`, `!=` is `True`.
* 1-D float array = `List (Option Rat)`; `times` = `List Rat` (seconds).  Out-of-range reads give NaN / 0 (Python
  raises).  Elementwise vector∘vector = `List.zipWith` (numpy raises on a length mismatch).
* a 2-D array of shape `(n0, n1)` is the list of its `n1` columns: `a[:, j]`, `a[:, p:q]`, `a[i, :]`, `a.shape[0]`,
  `a[i, j]`, `a[i, j] = v`, `np.hstack([(n,1)-columns…])`.
* `np.repeat(v.reshape((-1, 1)), n, axis=1)` / `np.repeat(v.reshape((1, -1)), n, axis=0)` and everything computed from
  them by broadcasting (`+ - * / %`, `np.abs/maximum/minimum`, comparisons, `np.logical_and/or`, `np.where(c, a, b)`) are
  *views* `fun i j => …` with a symbolic shape; a 1-D array broadcast against a view is read along the LAST axis;
  `m[i, :]` materialises row `i`.  When two symbolic extents are written differently the first is kept and the pair is
  recorded in `<kernel>_shape_assumptions` (the bridge takes the equality as a hypothesis).
* integers are `Int` (`int16` storage is not modelled — finding F21), indices and `len`/`shape` are `Nat`
  (`a - b` truncated at 0; Python's `[x] * (n - 1)` is `[]` for `n = 0` as well).  An array element used as an index
  obeys Python's negative-index rule (`Trk.pyIdx`).
* `x ** y` with a literal natural `y` is `x ^ y`; any other exponent makes `**` the ORACLE parameter
  `pow : Rat → Rat → Rat` (the exponent expression is translated exactly; Python rounds it to a double first).
  `pi`, `g` (checked to come from `scipy.constants`) are symbolic parameters.
* `np.timedelta64(1, "s")` is the rational `1` (time stamps are in seconds); `float(·)` is the identity.

Statements: `x = e`, `x[i] = e`, `x[i, j] = e`, `x += e` (and `-= *=`), `x.remove(e)` (→ `List.erase`),
`if / elif / else`, `for … in enumerate(v) | range(a[, b]) | v` (→ `List.foldl` over the iterated list, trip count =
its length, state = the variables the body assigns that exist before the loop; variables first assigned inside a loop
or a branch are local to it), list comprehensions with one `for` and an optional `if` (→ `List.filterMap`),
`sorted(l, key=lambda x: e)` (→ `Trk.sortedBy`, stable ascending: the FIRST minimal element comes first),
`len`, `in`, `and / or / not / ~`, `return e` / `return (a, b)` as the last statement, calls of kernels translated
earlier (keyword or positional; a scalar kernel applied to arrays is mapped elementwise, NaN in → NaN out).

Anything else raises `Untranslatable`: the kernel is replaced by a comment in the generated file (so every bridge
that mentions it stops compiling) and is reported as `untranslatable` by `python -m harness.translate`.
"""
import ast

from .translate import Untranslatable, _module, body_stmts, find_func, func_literals, lean_str, rat, write_if_changed

TRACKING = "wavespectra/partition/tracking.py"

RAT, ORAT, NAT, INT, BOOL, LIT = "Rat", "ORat", "Nat", "Int", "Bool", "Lit"
OVEC, RVEC, BVEC, IVEC, NLIST = ("list", ORAT), ("list", RAT), ("list", BOOL), ("list", INT), ("list", NAT)
OMAT, IMAT = ("mat", ORAT), ("mat", INT)
ICOL = ("col", INT)          # an (n, 1) integer array
INT_DTYPES = ("int16", "int32", "int64", "int")
LEAN_KEYWORDS = {"at", "from", "end", "fun", "open", "in", "do", "then", "else", "if", "let", "have", "show", "by", "match",
                 "with", "where", "def", "theorem", "instance", "structure", "namespace", "section", "import", "return",
                 "for", "mut", "Type", "Prop", "Sort", "some", "none", "default", "pow", "pi", "g", "matches", "using", "calc", "notation", "abbrev", "example", "lemma"}


def lty(t):
    if t == RAT:
        return "Rat"
    if t == ORAT:
        return "Option Rat"
    if t in (NAT, INT, BOOL):
        return t
    if isinstance(t, tuple):
        if t[0] in ("list", "col"):
            return f"List ({lty(t[1])})" if " " in lty(t[1]) else f"List {lty(t[1])}"
        if t[0] == "mat":
            return f"List (List ({lty(t[1])}))" if " " in lty(t[1]) else f"List (List {lty(t[1])})"
        if t[0] == "tuple":
            return "(" + " × ".join(lty(x) for x in t[1]) + ")"
        if t[0] == "view":
            return f"Nat → Nat → {lty(t[1])}"
    raise Untranslatable(f"no Lean type for {t}")


def ident(name):
    if name in LEAN_KEYWORDS:
        return f"«py_{name}»"
    return name


class Val:
    """translated expression: `ty` + Lean text `s`; literals keep their number (`num`); views keep `fn(i, j)`, `dims`"""

    def __init__(self, ty, s=None, num=None, fn=None, dims=None, pending=None):
        self.ty, self.s, self.num, self.fn, self.dims, self.pending = ty, s, num, fn, dims, pending


def _call_name(e):
    return ast.unparse(e.func) if isinstance(e, ast.Call) else None


def _full_slice(e):
    return isinstance(e, ast.Slice) and e.lower is None and e.upper is None and e.step is None


ARITH = {ast.Add: ("+", "Trk.oadd"), ast.Sub: ("-", "Trk.osub"), ast.Mult: ("*", "Trk.omul"), ast.Div: ("/", "Trk.odiv")}
CMP_O = {ast.Lt: "Trk.olt", ast.LtE: "Trk.ole", ast.Gt: "Trk.ogt", ast.GtE: "Trk.oge", ast.Eq: "Trk.oeq", ast.NotEq: "Trk.one"}
CMP_R = {ast.Lt: "<", ast.LtE: "≤", ast.Gt: ">", ast.GtE: "≥", ast.Eq: "=", ast.NotEq: "≠"}


class Kernel:
    """one function of tracking.py: signature, argument types, symbolic constants / oracle actually used"""

    LEAD = [("pow", "(pow : Rat → Rat → Rat)"), ("pi", "(pi : Rat)"), ("g", "(g : Rat)")]

    def __init__(self, pyname, lean_name, argtypes, ret):
        self.pyname, self.lean_name, self.argtypes, self.ret = pyname, lean_name, argtypes, ret
        self.fn = find_func(TRACKING, pyname)
        a = self.fn.args
        if a.vararg or a.kwarg or a.kwonlyargs or a.posonlyargs:
            raise Untranslatable(f"{pyname}: signature has */** parameters")
        self.args = [x.arg for x in a.args]
        if self.args != list(argtypes):
            raise Untranslatable(f"{pyname}: signature {self.args}, expected {list(argtypes)}")
        self.defaults = dict(zip(self.args[len(self.args) - len(a.defaults):], a.defaults))
        self.lead = []
        self.assumptions = []
        consts = _scipy_constants()
        self.consts = {c for c in ("pi", "g") if c in consts}

    def use(self, name):
        if name not in self.lead:
            self.lead.append(name)

    def lead_names(self):
        return [n for n, _ in self.LEAD if n in self.lead]

    def params(self):
        s = " ".join(d for n, d in self.LEAD if n in self.lead)
        s += (" " if s else "") + " ".join(f"({ident(a)} : {lty(t)})" for a, t in self.argtypes.items())
        return s

    def default_defs(self):
        out = []
        for a, d in self.defaults.items():
            v = d
            neg = False
            if isinstance(v, ast.UnaryOp) and isinstance(v.op, ast.USub):
                v, neg = v.operand, True
            if not (isinstance(v, ast.Constant) and isinstance(v.value, (int, float)) and not isinstance(v.value, bool)):
                raise Untranslatable(f"{self.pyname}: default of {a} is not a number")
            out.append((f"{self.lean_name}_{a}_default", f"def {self.lean_name}_{a}_default : Rat := {rat(-v.value if neg else v.value)}\n"))
        return out


def _scipy_constants():
    out = set()
    for st in _module(TRACKING).body:
        if isinstance(st, ast.ImportFrom) and st.module == "scipy.constants":
            out |= {a.asname or a.name for a in st.names if (a.asname or a.name) == a.name}
    return out


KERNELS = {}  # python name -> Kernel (translated earlier in this run; callable from later kernels)


# ------------------------------------------------------------------------------------------------
# expressions
# ------------------------------------------------------------------------------------------------
class Tr:
    def __init__(self, k):
        self.k = k
        self.fresh = 0

    # ---- coercions
    def rat(self, v):
        if v.ty == LIT:
            return rat(v.num)
        if v.ty == RAT:
            return v.s
        raise Untranslatable(f"{self.k.pyname}: expected a NaN-free float, got {v.ty}: {v.s}")

    def orat(self, v):
        if v.ty == ORAT:
            return v.s
        if v.ty in (RAT, LIT):
            return f"(some {self.rat(v)})"
        raise Untranslatable(f"{self.k.pyname}: expected a float, got {v.ty}")

    def int_(self, v):
        if v.ty == LIT and isinstance(v.num, int):
            return f"({v.num} : Int)"
        if v.ty == INT:
            return v.s
        if v.ty == NAT:
            return f"(({v.s} : Nat) : Int)"
        raise Untranslatable(f"{self.k.pyname}: expected an integer, got {v.ty}")

    def nat(self, v):
        if v.ty == LIT and isinstance(v.num, int) and v.num >= 0:
            return str(v.num)
        if v.ty == NAT:
            return v.s
        raise Untranslatable(f"{self.k.pyname}: expected a natural number, got {v.ty} {v.s or v.num}")

    def same_dim(self, a, b):
        if a is None:
            return b
        if b is not None and a != b:
            note = f"{a} = {b}"
            if note not in self.k.assumptions and f"{b} = {a}" not in self.k.assumptions:
                self.k.assumptions.append(note)
        return a

    # ---- rank helpers
    @staticmethod
    def rank(v):
        if v.ty in (RAT, ORAT, LIT):
            return 0
        if v.ty == OVEC:
            return 1
        if isinstance(v.ty, tuple) and v.ty[0] == "view":
            return 2
        return None

    def at(self, v, i, j):
        """element (as `Option Rat` text, or Bool text for Bool views) of a broadcast operand at view index (i, j)"""
        r = self.rank(v)
        if r == 0:
            return self.orat(v)
        if r == 1:
            return f"(Trk.oat {v.s} {j})"
        return v.fn(i, j)

    def dims_of(self, v):
        r = self.rank(v)
        if r == 1:
            return (None, f"(List.length {v.s})")
        if r == 2:
            return v.dims
        return (None, None)

    def elementwise(self, opname, vals, elt=ORAT):
        """apply the `Option Rat`-level function `opname` elementwise with broadcasting"""
        ranks = [self.rank(v) for v in vals]
        if any(r is None for r in ranks):
            raise Untranslatable(f"{self.k.pyname}: operand of {opname} is not a float / float array")
        top = max(ranks)
        if top == 0:
            return Val(elt, "(" + opname + " " + " ".join(self.orat(v) for v in vals) + ")")
        if top == 1:
            vecs = [v for v in vals if self.rank(v) == 1]
            names = ["a", "b", "c"]
            it = iter(names)
            args = [next(it) if self.rank(v) == 1 else self.orat(v) for v in vals]
            used = names[:len(vecs)]
            body = "(" + opname + " " + " ".join(args) + ")"
            lt = ("list", elt)
            if len(vecs) == 1:
                return Val(lt, f"(List.map (fun {used[0]} => {body}) {vecs[0].s})")
            if len(vecs) == 2:
                return Val(lt, f"(List.zipWith (fun {used[0]} {used[1]} => {body}) {vecs[0].s} {vecs[1].s})")
            raise Untranslatable(f"{self.k.pyname}: three-vector elementwise operation")
        d0 = d1 = None
        for v in vals:
            a, b = self.dims_of(v)
            d0, d1 = self.same_dim(d0, a) if a else d0, self.same_dim(d1, b) if b else d1
        vs = list(vals)
        return Val(("view", elt), fn=lambda i, j: "(" + opname + " " + " ".join(self.at(v, i, j) for v in vs) + ")", dims=(d0, d1))

    # ---- main
    def tr(self, e, env):
        k = self.k
        if isinstance(e, ast.Constant):
            if isinstance(e.value, bool) or not isinstance(e.value, (int, float)):
                raise Untranslatable(f"{k.pyname}: constant {e.value!r}")
            return Val(LIT, num=e.value)
        if isinstance(e, ast.Name):
            if e.id in env:
                return env[e.id]
            if e.id in k.consts:
                k.use(e.id)
                return Val(RAT, e.id)
            raise Untranslatable(f"{k.pyname}: free name {e.id}")
        if isinstance(e, ast.UnaryOp):
            if isinstance(e.op, ast.USub):
                v = self.tr(e.operand, env)
                if v.ty == LIT:
                    return Val(LIT, num=-v.num)
                if v.ty == RAT:
                    return Val(RAT, f"(-{v.s})")
                if v.ty == INT:
                    return Val(INT, f"(-{v.s})")
                if self.rank(v) is not None:
                    return self.elementwise("Trk.oneg", [v])
                raise Untranslatable(f"{k.pyname}: unary minus on {v.ty}")
            if isinstance(e.op, (ast.Invert, ast.Not)):
                v = self.tr(e.operand, env)
                if v.ty == BOOL:
                    return Val(BOOL, f"(!{v.s})")
                if v.ty == BVEC and isinstance(e.op, ast.Invert):
                    return Val(BVEC, f"(List.map (fun b => !b) {v.s})")
                raise Untranslatable(f"{k.pyname}: `{ast.unparse(e)}`: negation of {v.ty}")
            raise Untranslatable(f"{k.pyname}: unary operator in {ast.unparse(e)}")
        if isinstance(e, ast.BinOp):
            return self.binop(e, env)
        if isinstance(e, ast.BoolOp):
            vs = [self.tr(v, env) for v in e.values]
            if any(v.ty != BOOL for v in vs):
                raise Untranslatable(f"{k.pyname}: and/or of non-Booleans in {ast.unparse(e)}")
            op = " || " if isinstance(e.op, ast.Or) else " && "
            return Val(BOOL, "(" + op.join(v.s for v in vs) + ")")
        if isinstance(e, ast.Compare):
            return self.compare(e, env)
        if isinstance(e, ast.Subscript):
            return self.subscript(e, env)
        if isinstance(e, ast.Attribute):
            if e.attr == "size":
                v = self.tr(e.value, env)
                if isinstance(v.ty, tuple) and v.ty[0] == "list":
                    return Val(NAT, f"(List.length {v.s})")
            raise Untranslatable(f"{k.pyname}: attribute {ast.unparse(e)}")
        if isinstance(e, ast.List):
            vs = [self.tr(x, env) for x in e.elts]
            if not vs:
                raise Untranslatable(f"{k.pyname}: empty list literal")
            return self.pylist(vs)
        if isinstance(e, ast.Tuple):
            vs = [self.tr(x, env) for x in e.elts]
            return self.tuple_(vs)
        if isinstance(e, ast.ListComp):
            return self.listcomp(e, env)
        if isinstance(e, ast.Call):
            return self.call(e, env)
        raise Untranslatable(f"{k.pyname}: expression {ast.unparse(e)[:120]}")

    def scalar_store(self, v):
        """(type, text) of a scalar stored in a tuple / list"""
        if v.ty == LIT:
            return (INT, self.int_(v)) if isinstance(v.num, int) else (RAT, self.rat(v))
        if v.ty in (RAT, ORAT, NAT, INT, BOOL) or (isinstance(v.ty, tuple) and v.ty[0] in ("list", "tuple", "col", "mat")):
            return (v.ty, v.s)
        raise Untranslatable(f"{self.k.pyname}: a {v.ty} can not be stored in a list / tuple")

    def tuple_(self, vs):
        ts = [self.scalar_store(v) for v in vs]
        return Val(("tuple", tuple(t for t, _ in ts)), "(" + ", ".join(s for _, s in ts) + ")")

    def pylist(self, vs):
        """`[a, b, …]`: floats become `Option Rat` (they end in `np.array`), everything else keeps its type"""
        if all(v.ty in (RAT, ORAT, LIT) for v in vs):
            if all(v.ty == LIT and isinstance(v.num, int) for v in vs):
                raise Untranslatable(f"{self.k.pyname}: list of integer literals")
            return Val(OVEC, "[" + ", ".join(self.orat(v) for v in vs) + "]")
        ts = [self.scalar_store(v) for v in vs]
        if len({t for t, _ in ts}) != 1:
            raise Untranslatable(f"{self.k.pyname}: heterogeneous list")
        return Val(("list", ts[0][0]), "[" + ", ".join(s for _, s in ts) + "]")

    def binop(self, e, env):
        k = self.k
        a, b = self.tr(e.left, env), self.tr(e.right, env)
        op = type(e.op)
        # python lists: concatenation, repetition
        if isinstance(a.ty, tuple) and a.ty[0] == "list" and isinstance(e.left, (ast.List, ast.BinOp, ast.ListComp)) and self._is_pylist(e.left):
            if op is ast.Add and b.ty == a.ty and self._is_pylist(e.right):
                return Val(a.ty, f"({a.s} ++ {b.s})")
            if op is ast.Mult and b.ty in (NAT, LIT):
                n = self.nat(b)
                if isinstance(e.left, ast.List) and len(e.left.elts) == 1:
                    return Val(a.ty, f"(List.replicate {n} {a.s[1:-1]})")
                return Val(a.ty, f"(List.flatten (List.replicate {n} {a.s}))")
            raise Untranslatable(f"{k.pyname}: list operation {ast.unparse(e)[:100]}")
        # naturals (index / shape arithmetic)
        if a.ty == NAT and b.ty in (NAT, LIT) or b.ty == NAT and a.ty == LIT:
            if op in (ast.Add, ast.Sub, ast.Mult):
                return Val(NAT, f"({self.nat(a)} {ARITH[op][0]} {self.nat(b)})")
            raise Untranslatable(f"{k.pyname}: natural-number operator in {ast.unparse(e)}")
        # integers
        if a.ty == INT and b.ty in (INT, LIT) or b.ty == INT and a.ty == LIT:
            if op in (ast.Add, ast.Sub, ast.Mult):
                return Val(INT, f"({self.int_(a)} {ARITH[op][0]} {self.int_(b)})")
            raise Untranslatable(f"{k.pyname}: integer operator in {ast.unparse(e)}")
        # integer arrays times an integer
        if a.ty in (IVEC, ICOL) and b.ty in (INT, LIT) and op is ast.Mult:
            return Val(a.ty, f"(Trk.imulS {a.s} {self.int_(b)})")
        # NaN-free scalars
        if a.ty in (RAT, LIT) and b.ty in (RAT, LIT):
            if op in ARITH:
                return Val(RAT, f"({self.rat(a)} {ARITH[op][0]} {self.rat(b)})")
            if op is ast.Mod:
                return Val(RAT, f"(WS.pmod {self.rat(a)} {self.rat(b)})")
            if op is ast.Pow:
                if b.ty == LIT and isinstance(b.num, int) and b.num >= 0 and isinstance(e.right, ast.Constant):
                    return Val(RAT, f"({self.rat(a)} ^ {b.num})")
                k.use("pow")
                return Val(RAT, f"(pow {self.rat(a)} {self.rat(b)})")
            raise Untranslatable(f"{k.pyname}: operator in {ast.unparse(e)[:100]}")
        # floats with NaN, arrays, views
        if self.rank(a) is not None and self.rank(b) is not None:
            if op in ARITH:
                return self.elementwise(ARITH[op][1], [a, b])
            if op is ast.Mod:
                return self.elementwise("Trk.omod", [a, b])
        raise Untranslatable(f"{k.pyname}: operands of `{ast.unparse(e)[:100]}` ({a.ty}, {b.ty})")

    @staticmethod
    def _is_pylist(e):
        if isinstance(e, (ast.List, ast.ListComp)):
            return True
        if isinstance(e, ast.BinOp) and isinstance(e.op, ast.Add):
            return Tr._is_pylist(e.left) and Tr._is_pylist(e.right)
        if isinstance(e, ast.BinOp) and isinstance(e.op, ast.Mult):
            return Tr._is_pylist(e.left)
        return False

    def compare(self, e, env):
        k = self.k
        if len(e.ops) != 1:
            raise Untranslatable(f"{k.pyname}: chained comparison {ast.unparse(e)}")
        op = type(e.ops[0])
        a, b = self.tr(e.left, env), self.tr(e.comparators[0], env)
        if op in (ast.In, ast.NotIn):
            if isinstance(b.ty, tuple) and b.ty[0] == "list" and b.ty[1] in (NAT, INT):
                x = self.nat(a) if b.ty[1] == NAT else self.int_(a)
                s = f"decide ({x} ∈ {b.s})"
                return Val(BOOL, f"(!{s})" if op is ast.NotIn else f"({s})")
            raise Untranslatable(f"{k.pyname}: membership test {ast.unparse(e)}")
        if op not in CMP_R:
            raise Untranslatable(f"{k.pyname}: comparison {ast.unparse(e)}")
        if a.ty == NAT and b.ty in (NAT, LIT) or b.ty == NAT and a.ty == LIT:
            return Val(BOOL, f"decide ({self.nat(a)} {CMP_R[op]} {self.nat(b)})")
        if a.ty == INT and b.ty in (INT, LIT) or b.ty == INT and a.ty == LIT:
            return Val(BOOL, f"decide ({self.int_(a)} {CMP_R[op]} {self.int_(b)})")
        if a.ty in (RAT, LIT) and b.ty in (RAT, LIT):
            return Val(BOOL, f"decide ({self.rat(a)} {CMP_R[op]} {self.rat(b)})")
        if self.rank(a) is not None and self.rank(b) is not None:
            return self.elementwise(CMP_O[op], [a, b], elt=BOOL)
        raise Untranslatable(f"{k.pyname}: comparison of {a.ty} with {b.ty} in {ast.unparse(e)}")

    def subscript(self, e, env):
        k = self.k
        # x.shape[0]
        if isinstance(e.value, ast.Attribute) and e.value.attr == "shape":
            v = self.tr(e.value.value, env)
            i = e.slice
            if not (isinstance(i, ast.Constant) and i.value == 0):
                raise Untranslatable(f"{k.pyname}: {ast.unparse(e)} (only shape[0])")
            if isinstance(v.ty, tuple) and v.ty[0] == "mat":
                return Val(NAT, f"(Trk.nrows {v.s})")
            if isinstance(v.ty, tuple) and v.ty[0] == "list":
                return Val(NAT, f"(List.length {v.s})")
            raise Untranslatable(f"{k.pyname}: shape of {v.ty}")
        v = self.tr(e.value, env)
        sl = e.slice
        if isinstance(v.ty, tuple) and v.ty[0] == "mat":
            if not (isinstance(sl, ast.Tuple) and len(sl.elts) == 2):
                raise Untranslatable(f"{k.pyname}: 2-D array indexed as {ast.unparse(e)}")
            r, c = sl.elts
            if _full_slice(r) and isinstance(c, ast.Slice):
                if c.step is not None or c.lower is None or c.upper is None:
                    raise Untranslatable(f"{k.pyname}: column slice {ast.unparse(e)}")
                lo, hi = self.nat(self.tr(c.lower, env)), self.nat(self.tr(c.upper, env))
                return Val(v.ty, f"(Trk.cols {v.s} {lo} {hi})")
            if _full_slice(r):
                return Val(("list", v.ty[1]), f"(Trk.col {v.s} {self.nat(self.tr(c, env))})")
            if _full_slice(c):
                if v.ty != OMAT:
                    raise Untranslatable(f"{k.pyname}: row of an integer matrix {ast.unparse(e)}")
                return Val(OVEC, f"(Trk.row {v.s} {self.nat(self.tr(r, env))})")
            if isinstance(r, ast.Slice) or isinstance(c, ast.Slice):
                raise Untranslatable(f"{k.pyname}: slice {ast.unparse(e)}")
            if v.ty != IMAT:
                raise Untranslatable(f"{k.pyname}: element of a float matrix {ast.unparse(e)}")
            ri, ci = self.tr(r, env), self.tr(c, env)
            if ri.ty == INT:
                return Val(INT, f"(Trk.get2i {v.s} {ri.s} {self.nat(ci)})")
            return Val(INT, f"(Trk.get2 {v.s} {self.nat(ri)} {self.nat(ci)})")
        if isinstance(v.ty, tuple) and v.ty[0] == "view":
            if not (isinstance(sl, ast.Tuple) and len(sl.elts) == 2 and _full_slice(sl.elts[1])) or isinstance(sl.elts[0], ast.Slice):
                raise Untranslatable(f"{k.pyname}: broadcast array indexed as {ast.unparse(e)} (only m[i, :])")
            if v.ty[1] != ORAT or v.dims[1] is None:
                raise Untranslatable(f"{k.pyname}: row of {ast.unparse(e.value)}")
            i = self.nat(self.tr(sl.elts[0], env))
            return Val(OVEC, f"(List.map (fun j => {v.fn(i, 'j')}) (List.range {v.dims[1]}))")
        if isinstance(v.ty, tuple) and v.ty[0] == "tuple":
            if not (isinstance(sl, ast.Constant) or (isinstance(sl, ast.UnaryOp) and isinstance(sl.op, ast.USub) and isinstance(sl.operand, ast.Constant))):
                raise Untranslatable(f"{k.pyname}: tuple index {ast.unparse(e)}")
            i = self.tr(sl, env).num
            n = len(v.ty[1])
            if not isinstance(i, int) or not -n <= i < n:
                raise Untranslatable(f"{k.pyname}: tuple index out of range {ast.unparse(e)}")
            i %= n
            proj = ".2" * i + (".1" if i < n - 1 else "")
            return Val(v.ty[1][i], f"{v.s}{proj}")
        if isinstance(v.ty, tuple) and v.ty[0] == "list":
            if isinstance(sl, ast.Slice):
                if v.ty == RVEC and sl.lower is None and sl.step is None and sl.upper is not None:
                    return Val(RVEC, f"(List.take {self.nat(self.tr(sl.upper, env))} {v.s})")
                raise Untranslatable(f"{k.pyname}: slice {ast.unparse(e)}")
            i = self.nat(self.tr(sl, env))
            if v.ty == OVEC:
                return Val(ORAT, f"(Trk.oat {v.s} {i})")
            if v.ty == RVEC:
                return Val(RAT, f"(WS.getR {v.s} {i})")
            if v.ty == IVEC:
                return Val(INT, f"(List.getD {v.s} {i} 0)")
            if isinstance(v.ty[1], tuple) and v.ty[1][0] == "tuple":
                return Val(v.ty[1], f"(List.getD {v.s} {i} default)")
        raise Untranslatable(f"{k.pyname}: subscript {ast.unparse(e)[:100]} on {v.ty}")

    def kw(self, e, names):
        """positional + keyword arguments of a call as a dict (unknown keywords are an error)"""
        out = {}
        if len(e.args) > len(names):
            raise Untranslatable(f"{self.k.pyname}: too many arguments in {ast.unparse(e)[:80]}")
        for n, a in zip(names, e.args):
            out[n] = a
        for kwd in e.keywords:
            if kwd.arg is None or kwd.arg not in names or kwd.arg in out:
                raise Untranslatable(f"{self.k.pyname}: keyword {kwd.arg} in {ast.unparse(e)[:80]}")
            out[kwd.arg] = kwd.value
        return out

    def int_dtype(self, e):
        if not (isinstance(e, ast.Constant) and e.value in INT_DTYPES):
            raise Untranslatable(f"{self.k.pyname}: dtype {ast.unparse(e) if e is not None else None} is not an integer dtype")

    def call(self, e, env):
        k = self.k
        fn = _call_name(e)
        if fn == "float" and len(e.args) == 1 and not e.keywords:
            v = self.tr(e.args[0], env)
            if v.ty in (RAT, ORAT):
                return v
            raise Untranslatable(f"{k.pyname}: float() of {v.ty}")
        if fn == "len" and len(e.args) == 1 and not e.keywords:
            v = self.tr(e.args[0], env)
            if isinstance(v.ty, tuple) and v.ty[0] == "list":
                return Val(NAT, f"(List.length {v.s})")
            raise Untranslatable(f"{k.pyname}: len of {v.ty}")
        if fn in ("np.abs", "np.absolute", "abs") and len(e.args) == 1 and not e.keywords:
            v = self.tr(e.args[0], env)
            if v.ty in (RAT, LIT):
                return Val(RAT, f"(WS.absR {self.rat(v)})")
            if self.rank(v) is not None:
                return self.elementwise("Trk.oabs", [v])
            raise Untranslatable(f"{k.pyname}: abs of {v.ty}")
        if fn in ("np.maximum", "np.minimum") and len(e.args) == 2 and not e.keywords:
            a, b = self.tr(e.args[0], env), self.tr(e.args[1], env)
            if a.ty in (RAT, LIT) and b.ty in (RAT, LIT):
                return Val(RAT, f"(WS.{'maxR' if fn == 'np.maximum' else 'minR'} {self.rat(a)} {self.rat(b)})")
            if self.rank(a) is not None and self.rank(b) is not None:
                return self.elementwise("Trk.omax" if fn == "np.maximum" else "Trk.omin", [a, b])
            raise Untranslatable(f"{k.pyname}: {fn} of {a.ty}, {b.ty}")
        if fn in ("np.logical_and", "np.logical_or") and len(e.args) == 2 and not e.keywords:
            a, b = self.tr(e.args[0], env), self.tr(e.args[1], env)
            op = "&&" if fn == "np.logical_and" else "||"
            if a.ty == BOOL and b.ty == BOOL:
                return Val(BOOL, f"({a.s} {op} {b.s})")
            if a.ty == ("view", BOOL) and b.ty == ("view", BOOL):
                d0, d1 = self.same_dim(a.dims[0], b.dims[0]), self.same_dim(a.dims[1], b.dims[1])
                return Val(("view", BOOL), fn=lambda i, j: f"({a.fn(i, j)} {op} {b.fn(i, j)})", dims=(d0, d1))
            raise Untranslatable(f"{k.pyname}: {fn} of {a.ty}, {b.ty}")
        if fn == "np.where" and len(e.args) == 3 and not e.keywords:
            c, a, b = (self.tr(x, env) for x in e.args)
            if c.ty == ("view", BOOL) and self.rank(a) is not None and self.rank(b) is not None:
                d0, d1 = c.dims
                for v in (a, b):
                    x, y = self.dims_of(v)
                    d0, d1 = self.same_dim(d0, x) if x else d0, self.same_dim(d1, y) if y else d1
                return Val(("view", ORAT), fn=lambda i, j: f"(if {c.fn(i, j)} then {self.at(a, i, j)} else {self.at(b, i, j)})", dims=(d0, d1))
            raise Untranslatable(f"{k.pyname}: np.where on {c.ty}")
        if fn == "np.isnan" and len(e.args) == 1 and not e.keywords:
            v = self.tr(e.args[0], env)
            if v.ty == ORAT:
                return Val(BOOL, f"(Trk.isnan {v.s})")
            if v.ty == OVEC:
                return Val(BVEC, f"(List.map Trk.isnan {v.s})")
            raise Untranslatable(f"{k.pyname}: np.isnan of {v.ty}")
        if fn == "np.array" and len(e.args) == 1 and not e.keywords:
            v = self.tr(e.args[0], env)
            if v.ty == OVEC and self._is_pylist(e.args[0]):
                return v
            raise Untranslatable(f"{k.pyname}: np.array of {ast.unparse(e.args[0])[:80]}")
        if fn == "np.ones_like":
            a = self.kw(e, ["a", "dtype"])
            if set(a) != {"a", "dtype"}:
                raise Untranslatable(f"{k.pyname}: {ast.unparse(e)}: expected np.ones_like(v, dtype=<int>)")
            self.int_dtype(a["dtype"])
            v = self.tr(a["a"], env)
            if isinstance(v.ty, tuple) and v.ty[0] == "list":
                return Val(IVEC, f"(Trk.ionesLike {v.s})")
            raise Untranslatable(f"{k.pyname}: np.ones_like of {v.ty}")
        if fn == "np.ones":
            a = self.kw(e, ["shape", "dtype"])
            if set(a) != {"shape", "dtype"}:
                raise Untranslatable(f"{k.pyname}: {ast.unparse(e)}: expected np.ones(shape, dtype=<int>)")
            self.int_dtype(a["dtype"])
            sh = a["shape"]
            if isinstance(sh, ast.Tuple) and len(sh.elts) == 2 and isinstance(sh.elts[1], ast.Constant) and sh.elts[1].value == 1:
                return Val(ICOL, f"(Trk.iones {self.nat(self.tr(sh.elts[0], env))})")
            raise Untranslatable(f"{k.pyname}: np.ones shape {ast.unparse(sh)} (only (n, 1))")
        if fn == "np.diff" and len(e.args) == 1 and not e.keywords:
            v = self.tr(e.args[0], env)
            if v.ty == RVEC:
                return Val(RVEC, f"(Trk.diff {v.s})")
            raise Untranslatable(f"{k.pyname}: np.diff of {v.ty}")
        if fn == "np.timedelta64" and len(e.args) == 2 and not e.keywords:
            n, u = e.args
            if isinstance(u, ast.Constant) and u.value == "s" and isinstance(n, ast.Constant) and isinstance(n.value, int) and not isinstance(n.value, bool):
                return Val(LIT, num=n.value)
            raise Untranslatable(f"{k.pyname}: {ast.unparse(e)}: only whole seconds (time stamps are modelled in seconds)")
        if fn == "np.hstack" and len(e.args) == 1 and not e.keywords:
            v = self.tr(e.args[0], env)
            if v.ty == ("list", ICOL) and self._is_pylist(e.args[0]):
                return Val(IMAT, f"(Trk.hstack {v.s})")
            raise Untranslatable(f"{k.pyname}: np.hstack of {v.ty}")
        if fn == "np.repeat":
            a = self.kw(e, ["a", "repeats", "axis"])
            if set(a) != {"a", "repeats", "axis"}:
                raise Untranslatable(f"{k.pyname}: {ast.unparse(e)[:80]}: expected np.repeat(a, n, axis=…)")
            v = self.tr(a["a"], env)
            n = self.nat(self.tr(a["repeats"], env))
            ax = a["axis"]
            if not (isinstance(ax, ast.Constant) and ax.value in (0, 1)) or isinstance(ax.value, bool):
                raise Untranslatable(f"{k.pyname}: np.repeat axis {ast.unparse(ax)}")
            if v.pending == "col" and ax.value == 1 and v.ty == OVEC:
                s = v.s
                return Val(("view", ORAT), fn=lambda i, j: f"(Trk.oat {s} {i})", dims=(f"(List.length {s})", n))
            if v.pending == "row" and ax.value == 0 and v.ty == OVEC:
                s = v.s
                return Val(("view", ORAT), fn=lambda i, j: f"(Trk.oat {s} {j})", dims=(n, f"(List.length {s})"))
            raise Untranslatable(f"{k.pyname}: {ast.unparse(e)[:100]}: only a (n,1) column repeated along axis 1 or a (1,n) row along axis 0")
        if fn == "sorted":
            a = self.kw(e, ["iterable", "key"])
            if set(a) != {"iterable", "key"} or e.keywords and [x.arg for x in e.keywords] != ["key"]:
                raise Untranslatable(f"{k.pyname}: {ast.unparse(e)[:80]}: expected sorted(l, key=lambda x: …)")
            v = self.tr(a["iterable"], env)
            lam = a["key"]
            if not (isinstance(lam, ast.Lambda) and len(lam.args.args) == 1 and not lam.args.defaults and isinstance(v.ty, tuple) and v.ty[0] == "list"):
                raise Untranslatable(f"{k.pyname}: sort key {ast.unparse(lam)}")
            x = lam.args.args[0].arg
            xl = ident(x) if x not in env else None
            if xl is None:
                raise Untranslatable(f"{k.pyname}: sort key variable {x} shadows a variable")
            kv = self.tr(lam.body, {**env, x: Val(v.ty[1], xl)})
            return Val(v.ty, f"(Trk.sortedBy (fun ({xl} : {lty(v.ty[1])}) => {self.orat(kv)}) {v.s})")
        # methods
        if isinstance(e.func, ast.Attribute) and e.func.attr == "reshape" and len(e.args) == 1 and not e.keywords:
            v = self.tr(e.func.value, env)
            sh = ast.unparse(e.args[0])
            if v.ty == OVEC and sh in ("(-1, 1)", "(1, -1)") and v.pending is None:
                return Val(OVEC, v.s, pending="col" if sh == "(-1, 1)" else "row")
            if v.ty == IVEC and sh == "(-1, 1)":
                return Val(ICOL, v.s)
            raise Untranslatable(f"{k.pyname}: {ast.unparse(e)[:100]}: reshape of {v.ty} to {sh}")
        # kernels translated earlier
        if isinstance(e.func, ast.Name) and e.func.id in KERNELS:
            return self.kernel_call(KERNELS[e.func.id], e, env)
        raise Untranslatable(f"{k.pyname}: call {ast.unparse(e)[:100]}")

    def kernel_call(self, callee, e, env):
        k = self.k
        a = self.kw(e, callee.args)
        lead = []
        for n in callee.lead_names():
            k.use(n)
            lead.append(n)
        args, vecs = [], []
        for n in callee.args:
            if n in a:
                v = self.tr(a[n], env)
            elif n in callee.defaults:
                v = Val(RAT, f"{callee.lean_name}_{n}_default")
            else:
                raise Untranslatable(f"{k.pyname}: call of {callee.pyname} without {n}")
            want = callee.argtypes[n]
            if want == RAT and v.ty == OVEC:
                vecs.append((n, v))
                args.append(ident(n) + "_e")
            elif want == RAT:
                args.append(self.rat(v))
            elif want == ORAT:
                args.append(self.orat(v))
            elif v.ty == want:
                args.append(v.s)
            else:
                raise Untranslatable(f"{k.pyname}: argument {n} of {callee.pyname} is {v.ty}, expected {want}")
        head = " ".join([callee.lean_name] + lead)
        if not vecs:
            return Val(callee.ret, f"({head} {' '.join(args)})")
        if callee.ret != RAT:
            raise Untranslatable(f"{k.pyname}: {callee.pyname} applied to arrays")
        names = " ".join(ident(n) + "_e" for n, _ in vecs)
        fun = f"(fun {names} => {head} {' '.join(args)})"
        if len(vecs) == 1:
            return Val(OVEC, f"(List.map (Trk.lift1 {fun}) {vecs[0][1].s})")
        if len(vecs) == 2:
            return Val(OVEC, f"(List.zipWith (Trk.lift2 {fun}) {vecs[0][1].s} {vecs[1][1].s})")
        raise Untranslatable(f"{k.pyname}: {callee.pyname} applied to {len(vecs)} arrays")

    def iterable(self, it, env):
        """(Lean list text, item type, is_enumerate) of a `for` / comprehension iterable"""
        k = self.k
        fn = _call_name(it)
        if fn == "enumerate" and len(it.args) == 1 and not it.keywords:
            v = self.tr(it.args[0], env)
            if isinstance(v.ty, tuple) and v.ty[0] == "list":
                return f"(Trk.enum {v.s})", ("tuple", (NAT, v.ty[1]))
            raise Untranslatable(f"{k.pyname}: enumerate of {v.ty}")
        if fn == "range" and 1 <= len(it.args) <= 2 and not it.keywords:
            vs = [self.nat(self.tr(x, env)) for x in it.args]
            return (f"(List.range {vs[0]})" if len(vs) == 1 else f"(Trk.pyRange {vs[0]} {vs[1]})"), NAT
        v = self.tr(it, env)
        if isinstance(v.ty, tuple) and v.ty[0] == "list":
            return v.s, v.ty[1]
        raise Untranslatable(f"{k.pyname}: iteration over {ast.unparse(it)[:80]}")

    def bind_target(self, target, item_ty, item, env):
        """bind a loop target (a name, or a tuple of names) to `item`; returns (let-lines, env additions)"""
        k = self.k
        if isinstance(target, ast.Name):
            return [f"let {ident(target.id)} := {item}"], {target.id: Val(item_ty, ident(target.id))}
        if isinstance(target, ast.Tuple) and all(isinstance(t, ast.Name) for t in target.elts) and isinstance(item_ty, tuple) \
                and item_ty[0] == "tuple" and len(item_ty[1]) == len(target.elts):
            n = len(target.elts)
            lines, add = [], {}
            for i, t in enumerate(target.elts):
                proj = ".2" * i + (".1" if i < n - 1 else "")
                lines.append(f"let {ident(t.id)} := {item}{proj}")
                add[t.id] = Val(item_ty[1][i], ident(t.id))
            return lines, add
        raise Untranslatable(f"{k.pyname}: loop target {ast.unparse(target)} for items of type {item_ty}")

    def listcomp(self, e, env):
        k = self.k
        if len(e.generators) != 1 or e.generators[0].is_async or len(e.generators[0].ifs) > 1:
            raise Untranslatable(f"{k.pyname}: comprehension {ast.unparse(e)[:100]}")
        g = e.generators[0]
        items, ity = self.iterable(g.iter, env)
        self.fresh += 1
        x = f"el{self.fresh}"
        lets, add = self.bind_target(g.target, ity, x, env)
        for n in add:
            if n in env:
                raise Untranslatable(f"{k.pyname}: comprehension variable {n} shadows a variable")
        env2 = {**env, **add}
        v = self.tr(e.elt, env2)
        ety, es = self.scalar_store(v)
        if ety == NAT and isinstance(e.elt, ast.Name):
            pass
        pre = "; ".join(lets)
        if g.ifs:
            c = self.tr(g.ifs[0], env2)
            if c.ty != BOOL:
                raise Untranslatable(f"{k.pyname}: comprehension condition {ast.unparse(g.ifs[0])}")
            return Val(("list", ety), f"(List.filterMap (fun ({x} : {lty(ity)}) => {pre}; if {c.s} then some {es} else none) {items})")
        return Val(("list", ety), f"(List.map (fun ({x} : {lty(ity)}) => {pre}; {es}) {items})")


# ------------------------------------------------------------------------------------------------
# statements
# ------------------------------------------------------------------------------------------------
def assigned_names(stmts):
    """names (re)bound by a statement list, in order of first occurrence"""
    out = []

    def add(n):
        if n not in out:
            out.append(n)

    for st in stmts:
        if isinstance(st, ast.Assign):
            for t in st.targets:
                if isinstance(t, ast.Name):
                    add(t.id)
                elif isinstance(t, ast.Subscript) and isinstance(t.value, ast.Name):
                    add(t.value.id)
                else:
                    raise Untranslatable("assignment target " + ast.unparse(t))
        elif isinstance(st, ast.AugAssign):
            if isinstance(st.target, ast.Name):
                add(st.target.id)
            else:
                raise Untranslatable("augmented assignment target " + ast.unparse(st.target))
        elif isinstance(st, ast.Expr) and isinstance(st.value, ast.Call) and isinstance(st.value.func, ast.Attribute) \
                and isinstance(st.value.func.value, ast.Name):
            add(st.value.func.value.id)
        elif isinstance(st, ast.If):
            for n in assigned_names(st.body) + assigned_names(st.orelse):
                add(n)
        elif isinstance(st, ast.For):
            for n in assigned_names(st.body):
                add(n)
            if st.orelse:
                raise Untranslatable("for … else")
        else:
            raise Untranslatable("statement " + ast.unparse(st)[:80])
    return out


def state_tuple(names):
    return ident(names[0]) if len(names) == 1 else "(" + ", ".join(ident(n) for n in names) + ")"


def state_type(names, env):
    return lty(env[names[0]].ty) if len(names) == 1 else lty(("tuple", tuple(env[n].ty for n in names)))


def unpack_state(names, st, pad):
    if len(names) == 1:
        return [f"{pad}let {ident(names[0])} := {st}"]
    n = len(names)
    return [f"{pad}let {ident(nm)} := {st}{'.2' * i + ('.1' if i < n - 1 else '')}" for i, nm in enumerate(names)]


class Block:
    def __init__(self, k):
        self.k = k
        self.tr = Tr(k)
        self.depth = 0

    def bind(self, name, v, env, pad):
        """`name = <v>`: a `let` line and the new environment entry"""
        nm = ident(name)
        if isinstance(v.ty, tuple) and v.ty[0] == "view":
            return [f"{pad}let {nm} : {lty(v.ty)} := fun i j => {v.fn('i', 'j')}"], Val(v.ty, fn=lambda i, j: f"({nm} {i} {j})", dims=v.dims)
        if v.pending is not None:
            raise Untranslatable(f"{self.k.pyname}: a reshaped vector is only accepted inside np.repeat")
        if v.ty == LIT:
            ty = INT if isinstance(v.num, int) else RAT
            s = self.tr.int_(v) if ty == INT else self.tr.rat(v)
            return [f"{pad}let {nm} : {lty(ty)} := {s}"], Val(ty, nm)
        return [f"{pad}let {nm} : {lty(v.ty)} := {v.s}"], Val(v.ty, nm)

    def store_value(self, v, want):
        if want == INT:
            return self.tr.int_(v)
        if want == ORAT:
            return self.tr.orat(v)
        if want == NAT:
            return self.tr.nat(v)
        raise Untranslatable(f"{self.k.pyname}: element assignment into an array of {want}")

    def simple(self, st, env, pad):
        """non-compound statement → (lines, env')"""
        k, tr = self.k, self.tr
        if isinstance(st, ast.Assign):
            if len(st.targets) != 1:
                raise Untranslatable(f"{k.pyname}: chained assignment")
            t = st.targets[0]
            if isinstance(t, ast.Name):
                v = tr.tr(st.value, env)
                lines, nv = self.bind(t.id, v, env, pad)
                if t.id in env and env[t.id].ty != nv.ty:
                    raise Untranslatable(f"{k.pyname}: {t.id} changes type from {env[t.id].ty} to {nv.ty}")
                return lines, {**env, t.id: nv}
            if isinstance(t, ast.Subscript) and isinstance(t.value, ast.Name) and t.value.id in env:
                a = env[t.value.id]
                nm = ident(t.value.id)
                v = tr.tr(st.value, env)
                if a.ty == IVEC and not isinstance(t.slice, (ast.Tuple, ast.Slice)):
                    i = tr.nat(tr.tr(t.slice, env))
                    return [f"{pad}let {nm} : {lty(a.ty)} := (List.set {nm} {i} {self.store_value(v, INT)})"], env
                if a.ty == IMAT and isinstance(t.slice, ast.Tuple) and len(t.slice.elts) == 2 \
                        and not any(isinstance(x, ast.Slice) for x in t.slice.elts):
                    i, j = (tr.nat(tr.tr(x, env)) for x in t.slice.elts)
                    return [f"{pad}let {nm} : {lty(a.ty)} := (Trk.set2 {nm} {i} {j} {self.store_value(v, INT)})"], env
            raise Untranslatable(f"{k.pyname}: assignment {ast.unparse(st)[:100]}")
        if isinstance(st, ast.AugAssign):
            if not (isinstance(st.target, ast.Name) and st.target.id in env and type(st.op) in (ast.Add, ast.Sub, ast.Mult)):
                raise Untranslatable(f"{k.pyname}: {ast.unparse(st)}")
            e = ast.BinOp(left=ast.Name(id=st.target.id, ctx=ast.Load()), op=st.op, right=st.value)
            v = tr.tr(e, env)
            if v.ty != env[st.target.id].ty:
                raise Untranslatable(f"{k.pyname}: {ast.unparse(st)} changes the type of {st.target.id}")
            nm = ident(st.target.id)
            return [f"{pad}let {nm} : {lty(v.ty)} := {v.s}"], env
        if isinstance(st, ast.Expr) and isinstance(st.value, ast.Call) and isinstance(st.value.func, ast.Attribute):
            c = st.value
            if c.func.attr == "remove" and isinstance(c.func.value, ast.Name) and c.func.value.id in env and len(c.args) == 1 and not c.keywords:
                a = env[c.func.value.id]
                nm = ident(c.func.value.id)
                if a.ty == NLIST:
                    return [f"{pad}let {nm} : {lty(a.ty)} := (List.erase {nm} {tr.nat(tr.tr(c.args[0], env))})"], env
            raise Untranslatable(f"{k.pyname}: statement {ast.unparse(st)[:100]}")
        raise Untranslatable(f"{k.pyname}: statement {ast.unparse(st)[:100]}")

    def block(self, stmts, env, ind, tail):
        """statement list followed by `tail(env)` (the value of the enclosing construct)"""
        k, tr = self.k, self.tr
        pad = "  " * ind
        if not stmts:
            return [pad + tail(env)]
        st, rest = stmts[0], stmts[1:]
        if isinstance(st, ast.Return):
            raise Untranslatable(f"{k.pyname}: return inside a block")
        if isinstance(st, ast.If):
            c = tr.tr(st.test, env)
            if c.ty != BOOL:
                raise Untranslatable(f"{k.pyname}: condition {ast.unparse(st.test)} is {c.ty}")
            if not rest:
                a = self.block(st.body, env, ind + 1, lambda e2: tail(self.restrict(e2, env)))
                b = self.block(st.orelse, env, ind + 1, lambda e2: tail(self.restrict(e2, env)))
                return [f"{pad}if {c.s} then"] + a + [f"{pad}else"] + b
            names = [n for n in assigned_names(st.body) + assigned_names(st.orelse) if n in env]
            names = list(dict.fromkeys(names))
            if not names:
                raise Untranslatable(f"{k.pyname}: `if {ast.unparse(st.test)}` changes no variable")
            tr.fresh += 1
            sv = f"st{tr.fresh}"
            a = self.block(st.body, env, ind + 2, lambda e2: state_tuple(names))
            b = self.block(st.orelse, env, ind + 2, lambda e2: state_tuple(names))
            lines = [f"{pad}let {sv} : {state_type(names, env)} :=", f"{pad}  if {c.s} then"] + a + [f"{pad}  else"] + b
            lines += unpack_state(names, sv, pad)
            return lines + self.block(rest, env, ind, tail)
        if isinstance(st, ast.For):
            if st.orelse:
                raise Untranslatable(f"{k.pyname}: for … else")
            items, ity = tr.iterable(st.iter, env)
            names = [n for n in assigned_names(st.body) if n in env]
            if not names:
                raise Untranslatable(f"{k.pyname}: loop over {ast.unparse(st.iter)[:60]} changes no variable")
            tr.fresh += 1
            sv, xv = f"st{tr.fresh}", f"el{tr.fresh}"
            lets, add = tr.bind_target(st.target, ity, xv, env)
            for n in add:
                if n in env:
                    raise Untranslatable(f"{k.pyname}: loop variable {n} shadows a variable")
                if n in assigned_names(st.body):
                    raise Untranslatable(f"{k.pyname}: loop variable {n} is assigned in the loop")
            pad2 = "  " * (ind + 2)
            body = self.block(st.body, {**env, **add}, ind + 2, lambda e2: state_tuple(names))
            lines = [f"{pad}let {sv} : {state_type(names, env)} :=",
                     f"{pad}  List.foldl (fun ({sv} : {state_type(names, env)}) ({xv} : {lty(ity)}) =>"]
            lines += unpack_state(names, sv, pad2) + [pad2 + l for l in lets] + body
            lines[-1] += f") {state_tuple(names)} {items}"
            lines += unpack_state(names, sv, pad)
            return lines + self.block(rest, env, ind, tail)
        lines, env2 = self.simple(st, env, pad)
        return lines + self.block(rest, env2, ind, tail)

    @staticmethod
    def restrict(inner, outer):
        """variables first assigned inside a branch / loop body are local to it"""
        return {n: v for n, v in inner.items() if n in outer}

    def function(self):
        k = self.k
        stmts = body_stmts(k.fn)
        if not stmts or not isinstance(stmts[-1], ast.Return) or stmts[-1].value is None:
            raise Untranslatable(f"{k.pyname}: the last statement is not `return <value>`")
        ret = stmts[-1].value
        env = {a: Val(t, ident(a)) for a, t in k.argtypes.items()}

        def tail(e2):
            v = self.tr.tr(ret, e2)
            if v.ty == LIT:
                raise Untranslatable(f"{k.pyname}: returns a literal")
            want = k.ret
            if v.ty != want:
                raise Untranslatable(f"{k.pyname}: returns {v.ty}, expected {want}")
            return v.s

        return "\n".join(self.block(stmts[:-1], env, 1, tail))


# ------------------------------------------------------------------------------------------------
# kernels
# ------------------------------------------------------------------------------------------------
def _doc(s):
    return s.replace("-/", "- /")


def _define(k, body, doc):
    return f"/-- {_doc(doc)} -/\ndef {k.lean_name} {k.params()} : {lty(k.ret)} :=\n{body}\n"


def _literals(k):
    """numeric literals (source order, defaults first) and string literals of the function"""
    nums = func_literals(TRACKING, k.pyname)
    strs = []

    class V(ast.NodeVisitor):
        def visit_Expr(self, n):
            if isinstance(n.value, ast.Constant) and isinstance(n.value.value, str):
                return
            self.generic_visit(n)

        def visit_Constant(self, n):
            if isinstance(n.value, str):
                strs.append(n.value)

    V().visit(k.fn)
    return [(f"{k.lean_name}_lits", f"def {k.lean_name}_lits : List Rat := [{', '.join(rat(x) for x in nums)}]\n"),
            (f"{k.lean_name}_strs", f"def {k.lean_name}_strs : List String := [{', '.join(lean_str(x) for x in strs)}]\n")]


def _kernel(pyname, lean_name, argtypes, ret, doc):
    def run():
        KERNELS.pop(pyname, None)
        k = Kernel(pyname, lean_name, argtypes, ret)
        body = Block(k).function()
        defs = k.default_defs() + _literals(k)
        defs.append((f"{lean_name}_shape_assumptions",
                     f"def {lean_name}_shape_assumptions : List String := [{', '.join(lean_str(x) for x in k.assumptions)}]\n"))
        defs.append((lean_name, _define(k, body, doc)))
        KERNELS[pyname] = k
        return defs

    run.__name__ = "k_" + pyname
    return run


TRK_KERNELS = [
    _kernel("dfp_wsea", "trkDfpWsea", {"wspd": RAT, "fp": RAT, "dt": RAT, "scaling": RAT}, RAT,
            "`tracking.dfp_wsea` on scalars; `pow` = oracle for `**` with a non-natural exponent, `g` symbolic"),
    _kernel("dfp_swell", "trkDfpSwell", {"dt": RAT, "distance": RAT}, RAT, "`tracking.dfp_swell`; `pi`, `g` symbolic"),
    _kernel("match_consecutive_partitions", "trkMatch",
            {"fp": OMAT, "dpm": OMAT, "dfp_sea_max": ORAT, "dfp_swell_max": RAT, "ddpm_sea_max": RAT, "ddpm_swell_max": RAT}, IVEC,
            "`tracking.match_consecutive_partitions`: `fp`, `dpm` of shape `(P, 2)` as `[previous column, current column]`; "
            "result = `matches` (`-999` NaN slot, `-888` no predecessor, else index of the predecessor)"),
    _kernel("np_track_partitions", "trkNpTrack",
            {"times": RVEC, "fp": OMAT, "dpm": OMAT, "wspd": OVEC, "ddpm_sea_max": RAT, "ddpm_swell_max": RAT,
             "dfp_sea_scaling": RAT, "dfp_swell_source_distance": RAT}, ("tuple", (IMAT, INT)),
            "`tracking.np_track_partitions`: `times` in seconds, `fp`, `dpm` of shape `(P, T)` as the list of their `T` time "
            "columns, `wspd` of length `T`; result = (columns of `part_ids`, `part_id`)"),
]

HEADER = ("import WsVerif.Gen.Prelude\nimport WsVerif.Model.TrkRt\n"
          "/-! GENERATED by harness/translate_trk.py from wavespectra/partition/tracking.py — do not edit.\n"
          "    Vocabulary: Model/TrkRt.lean.  Bridged to Model/Track.lean, Model/TrackNp.lean in Props/C19trk.lean (`gentrk_*`). -/\n"
          "set_option linter.unusedVariables false\n"
          "namespace WS.Gen\nopen WS\n")


def generate_trk(gen_dir):
    status = {}
    KERNELS.clear()
    text = HEADER
    for kf in TRK_KERNELS:
        try:
            for nm, src in kf():
                text += src + "\n"
                status["trk_" + nm] = "ok"
        except Exception as e:  # Untranslatable, or a malformed tree: the tie is broken, the bridges will not build
            msg = f"{type(e).__name__}: {e}".replace("\n", " ")[:300]
            text += f"-- {kf.__name__}: untranslatable: {_doc(msg)}\n\n"
            status["trk_" + kf.__name__] = f"untranslatable: {msg}"
    text += "end WS.Gen\n"
    write_if_changed(gen_dir / "TrackKernels.lean", text)
    return status

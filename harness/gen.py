"""Shared generators (DESIGN §2.3). Every random choice comes from the `random.Random` passed in."""
import math
from fractions import Fraction

import numpy as np

# direction counts whose spacing 360/m is a dyadic rational (exact in binary floating point)
EXACT_ND = [1, 2, 3, 4, 5, 6, 8, 9, 10, 12, 15, 16, 18, 20, 24, 30, 32, 36, 40, 45, 48, 60, 64, 72]


def gen_freq(rng, n, kind=None, exact=True):
    """Strictly increasing positive frequencies. kinds: log, irregular, uniform."""
    kind = kind or rng.choice(["log", "irregular", "uniform"])
    if n == 1:
        f = [rng.choice([0.05, 0.1, 0.25, 0.5])]
        return np.array(f), kind
    if kind == "uniform":
        f0 = rng.randint(2, 12) / 256
        d = rng.randint(1, 6) / 256
        f = [f0 + i * d for i in range(n)]
    elif kind == "log":
        f0 = rng.choice([0.03, 0.04, 0.05])
        r = rng.choice([1.05, 1.07, 1.1, 1.15])
        f = [f0 * r ** i for i in range(n)]
        if exact:
            f = [round(x * 4096) / 4096 for x in f]
    else:
        f = [rng.randint(2, 12) / 256]
        for _ in range(n - 1):
            f.append(f[-1] + rng.randint(1, 9) / 256)
    # optionally rescale so that the last frequency lies on a chosen side of 0.333
    side = rng.choice(["below", "above", "asis"])
    f = np.array(f, dtype=float)
    if side != "asis" and n > 1:
        target = rng.choice([0.25, 0.3125, 0.375, 0.5, 1.0]) if side == "above" else rng.choice([0.125, 0.25, 0.3125])
        k = target / f[-1]
        if exact:
            # keep dyadic: scale by a power of two close to k
            k = 2.0 ** round(math.log2(k)) if k > 0 else 1.0
        f = f * k
    assert np.all(np.diff(f) > 0), f
    return f, kind + ":" + ("hi" if f[-1] > 0.333 else "lo")


def gen_dirs(rng, m, order=None, exact=True, full=True):
    """Uniform directions (degrees). order: sorted, rotated, reversed, seam (seam between the first two)."""
    if m == 1:
        return np.array([float(rng.choice([0, 45, 200, 359]))]), "single"
    dd = 360.0 / m if full else rng.choice([1.0, 2.5, 5.0, 10.0])
    if not full:
        while dd * m > 300:
            dd /= 2
    start = rng.choice([0.0, dd / 2, 0.25 * rng.randint(0, int(4 * dd)), 5.0 % dd])
    if not full:
        start = float(rng.randint(0, int(360 - dd * m)))
    base = np.array([start + j * dd for j in range(m)], dtype=float)
    if full:
        base = np.sort(base % 360.0)
    order = order or rng.choice(["sorted", "sorted", "rotated", "reversed"])
    if order == "sorted":
        d = base
    elif order == "rotated":
        k = rng.randint(1, m - 1) if m > 2 else 0
        if k == m - 1 and m > 2:
            k = max(1, m - 2)  # keep the seam away from the first pair
        d = np.roll(base, -k)
    elif order == "seam":
        d = np.roll(base, 1)  # last direction first: seam between stored[0] and stored[1]
    elif order == "reversed":
        d = base[::-1].copy()
    elif order == "shuffled":
        # stored in no particular order (e.g. 0, 180, 90, 270): the first two stored directions need not be neighbours
        perm = list(range(m))
        rng.shuffle(perm)
        d = base[perm].copy()
    elif order == "sorted360":
        # the same full-circle grid with the north bin labelled 360 instead of 0 (dd, 2dd, …, 360)
        d = base.copy()
        if full and d[0] == 0.0:
            d = np.concatenate([d[1:], [360.0]])
    else:
        raise ValueError(order)
    return d, order


def gen_spectrum(rng, nf, nd, kind=None, exact=True):
    """Non-negative (nf, nd) array; `kind` in blobs, plateau, ties, sparse, single, monotone, zero, const, noisy."""
    kind = kind or rng.choice(["blobs", "blobs", "blobs", "plateau", "ties", "sparse", "single", "monoup", "monodown",
                               "noisy", "noisy", "zero", "const"])
    E = np.zeros((nf, nd))
    if kind == "blobs":
        for _ in range(rng.randint(1, 3)):
            i0, j0 = rng.randrange(nf), rng.randrange(nd)
            sf, sd = rng.uniform(0.7, 3.0), rng.uniform(0.7, max(1.0, nd / 4))
            amp = rng.choice([1, 4, 16, 64])
            for i in range(nf):
                for j in range(nd):
                    dj = min(abs(j - j0), nd - abs(j - j0))
                    E[i, j] += amp * math.exp(-((i - i0) / sf) ** 2 - (dj / sd) ** 2)
    elif kind == "plateau":
        E[:] = rng.randint(0, 2)
        i0, i1 = sorted((rng.randrange(nf), rng.randrange(nf)))
        j0, j1 = sorted((rng.randrange(nd), rng.randrange(nd)))
        E[i0:i1 + 1, j0:j1 + 1] = rng.randint(2, 5)
    elif kind == "ties":
        E = np.array([[rng.randint(0, 3) for _ in range(nd)] for _ in range(nf)], dtype=float)
    elif kind == "sparse":
        for _ in range(rng.randint(1, 4)):
            E[rng.randrange(nf), rng.randrange(nd)] = rng.randint(1, 9)
    elif kind == "single":
        E[rng.randrange(nf), rng.randrange(nd)] = rng.randint(1, 9)
    elif kind == "monoup":
        E = np.array([[(i + 1) * (1 + (j % 3)) for j in range(nd)] for i in range(nf)], dtype=float)
    elif kind == "monodown":
        E = np.array([[(nf - i) * (1 + (j % 2)) for j in range(nd)] for i in range(nf)], dtype=float)
    elif kind == "noisy":
        E = np.array([[rng.random() ** 3 * 10 for _ in range(nd)] for _ in range(nf)])
    elif kind == "zero":
        pass
    elif kind == "const":
        E[:] = rng.choice([1.0, 3.0, 0.5])
    if exact:
        E = np.round(E * 64) / 64
    else:
        E[E < 1e-6 * (E.max() if E.size else 0)] = 0.0  # no float32 denormals
    return E, kind


def signature(nf, nd, *tags):
    def cls(n):
        return "1" if n == 1 else "2" if n == 2 else "3-5" if n <= 5 else "6-16" if n <= 16 else "17+"
    return (cls(nf), cls(nd)) + tuple(tags)


def make_da(freq, dirs, E, dtype="float64", extra=None, dim_order=None):
    """DataArray efth(freq, dir) (or (freq,) when dirs is None) with optional leading dims.

    extra: list of (name, coordinate values); E then has shape extra dims + (nf, nd)."""
    import xarray as xr

    dims = []
    coords = {}
    for name, vals in (extra or []):
        dims.append(name)
        coords[name] = vals
    dims.append("freq")
    coords["freq"] = freq
    if dirs is not None:
        dims.append("dir")
        coords["dir"] = dirs
        # whole-degree directions are sometimes stored as integers (np.arange(0, 360, 15)): one generated object in six
        # carries an int64 direction coordinate (a deterministic function of the contents; VERIF_INT_DIR=0 switches it off)
        import os
        import zlib

        dv = np.asarray(dirs)
        if (os.environ.get("VERIF_INT_DIR", "1") != "0" and dv.dtype.kind == "f" and dv.size and np.all(dv == np.round(dv))
                and zlib.crc32(np.ascontiguousarray(np.asarray(E, dtype="float64")).tobytes()) % 6 == 0):
            coords["dir"] = dv.astype("int64")
    da = xr.DataArray(np.asarray(E, dtype=dtype), dims=dims, coords=coords, name="efth")
    if dim_order:
        da = da.transpose(*dim_order)
    return da


def trig_tables(dirs, theta=90.0):
    """sin/cos of (180 + theta - dir) in radians: the published convention of momd/dm."""
    a = np.radians(180.0 + theta - np.asarray(dirs, dtype=float))
    return np.sin(a), np.cos(a)


def bin_width(dirs):
    """Direction bin width of the property statement: spacing of the uniform grid, taken the short way round the
    circle between the first two stored directions; 1.0 for a single direction or a 1-D spectrum."""
    if dirs is None or len(dirs) < 2:
        return 1.0
    d = abs(float(dirs[1]) - float(dirs[0]))
    return min(d, 360.0 - d)


def primed(obj, prime, variant=0):
    """An object equal to `obj` (same class, values, coordinates, attributes) that has a HISTORY: the same Python object first held
    other contents, its `.spec` accessor served `prime(obj)` then, and it was afterwards edited IN PLACE into the contents of
    `obj` through the routes xarray offers for that:

      variant 0 (Dataset / DataArray): only the frequency and direction coordinates differed — restored with
                `x.coords["freq"] = …` / `x.coords.update({"dir": …})` (the data variable object is never replaced);
      variant 1 (Dataset): only the energy differed — restored with `ds["efth"] = …` (the variable object is replaced);
      variant 2 (Dataset): both.

    xarray caches an accessor on the object it was first requested from, so anything the accessor memoised while the object held
    the decoy contents (a cached SpecArray, bin widths, a 1-D spectrum, station coordinates) is served to the next call unless the
    library re-reads the object.  A library that keeps no such state returns exactly what it returns on `obj`.  When the object
    cannot be given a history faithfully (non-numeric axes, dask-backed data, a failed restore) `obj` itself is returned."""
    import numpy as np
    import xarray as xr

    try:
        is_ds = isinstance(obj, xr.Dataset)
        da = obj["efth"] if is_ds else obj
        if not isinstance(da, xr.DataArray) or not isinstance(da.variable._data, np.ndarray):
            return obj
        if "freq" not in da.dims or not np.issubdtype(obj["freq"].dtype, np.number):
            return obj
        x = obj.copy(deep=True)
        if variant in (0, 2) or not is_ds:
            f = np.asarray(obj["freq"].values)
            x.coords["freq"] = ("freq", (f * 1.5 + 0.01).astype(f.dtype) if np.issubdtype(f.dtype, np.floating) else f + 1, dict(obj["freq"].attrs))
            if "dir" in da.dims and np.issubdtype(obj["dir"].dtype, np.number) and obj["dir"].size > 1:
                d = np.asarray(obj["dir"].values)
                x.coords["dir"] = ("dir", ((d.astype(float) * 0.5) % 360).astype(d.dtype), dict(obj["dir"].attrs))
        if is_ds and variant in (1, 2):
            e = x["efth"]
            x["efth"] = (e.dims, np.flip(np.asarray(e.values), axis=e.get_axis_num("freq")) * 0.25 + 0.5, dict(e.attrs))
        try:
            prime(x)
        except Exception:
            pass
        # restore in place, on the same object
        if is_ds and variant in (1, 2):
            x["efth"] = obj["efth"].variable.copy(deep=True)
        if variant in (0, 2) or not is_ds:
            x.coords["freq"] = obj["freq"].variable.copy(deep=True)
            if "dir" in da.dims:
                x.coords.update({"dir": obj["dir"].variable.copy(deep=True)})
        x.attrs = dict(obj.attrs)
        xr.testing.assert_identical(x, obj)
        if is_ds:
            for v in obj.variables:
                if obj[v].dtype != x[v].dtype or obj[v].dims != x[v].dims:
                    return obj
            if list(x.data_vars) != list(obj.data_vars):
                return obj
        elif x.dims != obj.dims or x.dtype != obj.dtype:
            return obj
        return x
    except Exception:
        return obj

"""Shared machinery of the wavespectra verification harness (DESIGN §1.4, §2).

Everything is rebuilt from $VERIF_REPO (default /repo): the C extension is compiled into
/verif/.build/ext and injected into sys.modules before `import wavespectra`, so a stale .so in the
repository is never used.
"""
import hashlib
import importlib.machinery
import importlib.util
import json
import os
import random
import re
import subprocess
import sys
import sysconfig
import time
import traceback
from fractions import Fraction
from pathlib import Path

ROOT = Path(__file__).resolve().parent.parent
REPO = Path(os.environ.get("VERIF_REPO", "/repo")).resolve()
BUILD = ROOT / ".build"
LEAN = ROOT / "lean"
ALLOWED_AXIOMS = {"propext", "Classical.choice", "Quot.sound"}
FORBIDDEN = re.compile(r"\b(sorry|admit|native_decide|bv_decide|implemented_by|unsafe)\b|^axiom |maxHeartbeats 0")

os.environ.setdefault("WAVESPECTRA_VERIF", "1")


def log(*a, **kw):
    print(*a, file=sys.stderr, flush=True, **kw)


# ----------------------------------------------------------------------------------------------
# repository import with a freshly built extension
# ----------------------------------------------------------------------------------------------
_ws = None


def _sha(paths):
    h = hashlib.sha256()
    for p in paths:
        h.update(Path(p).read_bytes())
    return h.hexdigest()[:16]


def build_ext():
    """Compile wavespectra.partition.specpart from REPO's C sources; returns the .so path."""
    import numpy

    src = [REPO / "wavespectra/partition/specpart/specpart_wrap.c", REPO / "wavespectra/partition/specpart/specpart.c"]
    hdr = REPO / "wavespectra/partition/specpart/specpart.h"
    tag = _sha(src + [hdr])
    out = BUILD / "ext" / f"specpart_{tag}.so"
    if out.exists():
        return out
    out.parent.mkdir(parents=True, exist_ok=True)
    inc = sysconfig.get_paths()["include"]
    cmd = ["gcc", "-O2", "-fPIC", "-shared", "-w", f"-I{inc}", f"-I{numpy.get_include()}",
           f"-I{hdr.parent}", "-o", str(out) + ".tmp"] + [str(s) for s in src] + ["-lm"]
    r = subprocess.run(cmd, capture_output=True, text=True)
    if r.returncode != 0:
        raise RuntimeError("extension build failed:\n" + r.stderr[-3000:])
    os.replace(str(out) + ".tmp", out)
    return out


def import_ws():
    """Import wavespectra from REPO with the fresh extension. Returns the package."""
    global _ws
    if _ws is not None:
        return _ws
    import warnings

    warnings.filterwarnings("ignore")
    so = build_ext()
    if str(REPO) not in sys.path[:1]:
        sys.path.insert(0, str(REPO))
    name = "wavespectra.partition.specpart"
    loader = importlib.machinery.ExtensionFileLoader(name, str(so))
    spec = importlib.util.spec_from_file_location(name, str(so), loader=loader)
    mod = importlib.util.module_from_spec(spec)
    loader.exec_module(mod)
    sys.modules[name] = mod
    import wavespectra  # noqa

    assert Path(wavespectra.__file__).resolve().parent.parent == REPO, (wavespectra.__file__, REPO)
    import wavespectra.partition as wp

    wp.specpart = mod
    _ws = wavespectra
    return wavespectra


# ----------------------------------------------------------------------------------------------
# Lean: build, audit, driver
# ----------------------------------------------------------------------------------------------
def run(cmd, cwd=None, timeout=None, env=None):
    return subprocess.run(cmd, cwd=cwd, capture_output=True, text=True, timeout=timeout, env=env)


def lake_build(targets, timeout=3000):
    r = run(["lake", "build"] + list(targets), cwd=LEAN, timeout=timeout)
    return r.returncode == 0, (r.stdout + r.stderr)


def theorem_names(lean_file):
    """Names of the theorems declared in a Props file (with their namespace)."""
    txt = Path(lean_file).read_text()
    # strip block comments and line comments
    txt = re.sub(r"/-.*?-/", "", txt, flags=re.S)
    txt = re.sub(r"--.*", "", txt)
    names = []
    ns = []
    for line in txt.splitlines():
        m = re.match(r"\s*namespace\s+(\S+)", line)
        if m:
            ns.append(m.group(1))
            continue
        m = re.match(r"\s*end\s+(\S+)", line)
        if m and ns and ns[-1] == m.group(1):
            ns.pop()
            continue
        m = re.match(r"\s*(?:@\[[^\]]*\]\s*)?(?:private\s+|protected\s+)?theorem\s+(\S+)", line)
        if m:
            names.append(".".join(ns + [m.group(1)]))
    return names


def forbidden_tokens():
    """grep the Lean sources for sorry/admit/axiom/native_decide/... outside comments."""
    hits = []
    for p in list((LEAN / "WsVerif").rglob("*.lean")) + [LEAN / "Driver.lean"]:
        txt = p.read_text()
        txt = re.sub(r"/-.*?-/", lambda m: "\n" * m.group(0).count("\n"), txt, flags=re.S)
        for i, line in enumerate(txt.splitlines(), 1):
            line = re.sub(r"--.*", "", line)
            if FORBIDDEN.search(line):
                hits.append(f"{p.relative_to(LEAN)}:{i}: {line.strip()}")
    return hits


def audit(pid):
    """Build Props/<pid>, then #print axioms for every theorem in it.

    Returns dict(obligations, discharged, broken=[...], axioms={thm: [...]}, log)."""
    files = sorted((LEAN / "WsVerif" / "Props").glob(f"{pid}*.lean"))
    props = files[0] if files else LEAN / "WsVerif" / "Props" / f"{pid}.lean"
    res = dict(obligations=0, discharged=0, broken=[], axioms={}, log="", theorems=[])
    names = [n for f in files for n in theorem_names(f)]
    res["theorems"] = names
    res["obligations"] = len(names)
    mods = [f"WsVerif.Props.{f.stem}" for f in files]
    ok, out = lake_build(mods)
    res["log"] = out[-6000:]
    if not ok:
        # find which declarations failed
        bad = sorted(set(re.findall(r"error: [^\n]*?(?:Props/%s\.lean|Lemmas/\w+\.lean|Gen/\w+\.lean|Model/\w+\.lean):(\d+)" % pid, out)))
        res["broken"] = [f"lake build WsVerif.Props.{pid} failed (lines {','.join(bad) or '?'})"]
        for f in files:
            res["broken"] += _locate_failed(f, out)
        return res
    BUILD.mkdir(exist_ok=True)
    af = BUILD / f"audit_{pid}.lean"
    af.write_text("".join(f"import {m}\n" for m in mods) + "".join(f"#print axioms {n}\n" for n in names))
    r = run(["lake", "env", "lean", str(af)], cwd=LEAN, timeout=1200)
    txt = r.stdout + r.stderr
    cur = None
    axs = {}
    for m in re.finditer(r"'([^']+)' (does not depend on any axioms|depends on axioms: \[([^\]]*)\])", txt):
        axs[m.group(1)] = [a.strip() for a in (m.group(3) or "").replace("\n", " ").split(",") if a.strip()]
    res["axioms"] = axs
    for n in names:
        if n not in axs:
            res["broken"].append(f"{n}: no #print axioms output ({txt[-300:]})")
        elif set(axs[n]) - ALLOWED_AXIOMS:
            res["broken"].append(f"{n}: disallowed axioms {sorted(set(axs[n]) - ALLOWED_AXIOMS)}")
        else:
            res["discharged"] += 1
    if os.environ.get("VERIF_TIER") == "thorough":
        # independent re-check of the compiled proof terms by the toolchain's stand-alone kernel checker
        rc = run(["lake", "env", "leanchecker"] + mods, cwd=LEAN, timeout=3000)
        res["leanchecker"] = "ok" if rc.returncode == 0 else f"FAILED rc={rc.returncode}: {(rc.stdout + rc.stderr)[-400:]}"
        if rc.returncode != 0:
            res["broken"].append(f"leanchecker rejects {' '.join(mods)}: {(rc.stdout + rc.stderr)[-300:]}")
    hits = forbidden_tokens()
    if hits:
        res["broken"] += ["forbidden token: " + h for h in hits]
        res["discharged"] = min(res["discharged"], res["obligations"] - 1)
    return res


def _locate_failed(props, out):
    """Map error line numbers in the Props file to theorem names."""
    lines = props.read_text().splitlines()
    starts = [(i + 1, re.match(r"\s*(?:@\[[^\]]*\]\s*)?theorem\s+(\S+)", l).group(1)) for i, l in enumerate(lines)
              if re.match(r"\s*(?:@\[[^\]]*\]\s*)?theorem\s+(\S+)", l)]
    bad = set()
    for m in re.finditer(r"error: [^\n]*?%s:(\d+):\d+" % re.escape(props.name), out):
        ln = int(m.group(1))
        cand = [n for (s, n) in starts if s <= ln]
        if cand:
            bad.add(cand[-1])
    return [f"theorem {b} no longer checks" for b in sorted(bad)]


_driver_ready = False


def ensure_driver():
    global _driver_ready
    if _driver_ready:
        return
    ok, out = lake_build(["driver"])
    if not ok:
        raise RuntimeError("driver build failed:\n" + out[-4000:])
    _driver_ready = True


def run_driver(lines, timeout=3000):
    """Send request lines to the compiled Lean model driver; returns the response lines."""
    ensure_driver()
    exe = LEAN / ".lake" / "build" / "bin" / "driver"
    inp = "\n".join(lines) + "\n"
    r = subprocess.run([str(exe)], input=inp, capture_output=True, text=True, timeout=timeout)
    if r.returncode != 0:
        raise RuntimeError(f"driver exit {r.returncode}: {r.stderr[-2000:]}")
    out = r.stdout.splitlines()
    if len(out) != len(lines):
        raise RuntimeError(f"driver returned {len(out)} lines for {len(lines)} requests; last: {out[-1:] }")
    return out


# ----------------------------------------------------------------------------------------------
# protocol encoding
# ----------------------------------------------------------------------------------------------
def fr(x):
    """Exact rational of a python/numpy number."""
    if isinstance(x, Fraction):
        return x
    if isinstance(x, int):
        return Fraction(x)
    import numpy as np

    if isinstance(x, (np.integer,)):
        return Fraction(int(x))
    return Fraction(*float(x).as_integer_ratio())


def enc(x):
    f = fr(x)
    return str(f.numerator) if f.denominator == 1 else f"{f.numerator}/{f.denominator}"


def enc_o(x):
    import math

    if x is None or (isinstance(x, float) and math.isnan(x)):
        return "nan"
    return enc(x)


def enc_v(xs):
    xs = list(xs)
    return "v %d %s" % (len(xs), " ".join(enc(x) for x in xs)) if xs else "v 0"


def enc_ov(xs):
    xs = list(xs)
    return "v %d %s" % (len(xs), " ".join(enc_o(x) for x in xs)) if xs else "v 0"


def enc_iv(xs):
    xs = list(xs)
    return "iv %d %s" % (len(xs), " ".join(str(int(x)) for x in xs)) if xs else "iv 0"


def enc_m(rows, ncol=None):
    rows = [list(r) for r in rows]
    c = ncol if ncol is not None else (len(rows[0]) if rows else 0)
    body = " ".join(enc(x) for r in rows for x in r)
    return ("m %d %d %s" % (len(rows), c, body)).rstrip()


def enc_im(rows, ncol=None):
    rows = [list(r) for r in rows]
    c = ncol if ncol is not None else (len(rows[0]) if rows else 0)
    body = " ".join(str(int(x)) for r in rows for x in r)
    return ("im %d %d %s" % (len(rows), c, body)).rstrip()


def enc_optv(xs):
    return "none" if xs is None else enc_v(xs)


def parse_val(s):
    if s == "nan":
        return None
    return Fraction(s)


def parse_resp(line):
    """Parse `ok k=v k=v ...` where v is a rational, `nan`, or a `v n ...` / `m r c ...` / `iv n ..` block."""
    toks = line.split()
    if not toks:
        return ("err", "empty")
    if toks[0] != "ok":
        return ("err", " ".join(toks[1:]))
    out = {}
    i = 1
    pos = 0
    while i < len(toks):
        t = toks[i]
        if "=" in t:
            k, v = t.split("=", 1)
        else:
            k, v = f"_{pos}", t
            pos += 1
        i += 1
        if v == "v":
            n = int(toks[i]); i += 1
            out[k] = [parse_val(x) for x in toks[i:i + n]]; i += n
        elif v == "iv":
            n = int(toks[i]); i += 1
            out[k] = [int(x) for x in toks[i:i + n]]; i += n
        elif v == "m":
            r, c = int(toks[i]), int(toks[i + 1]); i += 2
            flat = [parse_val(x) for x in toks[i:i + r * c]]; i += r * c
            out[k] = [flat[a * c:(a + 1) * c] for a in range(r)]
        elif v == "im":
            r, c = int(toks[i]), int(toks[i + 1]); i += 2
            flat = [int(x) for x in toks[i:i + r * c]]; i += r * c
            out[k] = [flat[a * c:(a + 1) * c] for a in range(r)]
        else:
            try:
                out[k] = parse_val(v)
            except ValueError:
                out[k] = v
    return ("ok", out)


# ----------------------------------------------------------------------------------------------
# comparison
# ----------------------------------------------------------------------------------------------
def close(impl, model, rel=1e-9, abs_=1e-300, scale=None):
    """impl: float (may be nan); model: Fraction/None/float."""
    import math

    if model is None:
        return impl is None or (isinstance(impl, float) and (math.isnan(impl) or math.isinf(impl)))
    if impl is None:
        return False
    impl = float(impl)
    if math.isnan(impl) or math.isinf(impl):
        return False
    m = float(model)
    s = scale if scale is not None else max(abs(impl), abs(m))
    return abs(impl - m) <= rel * s + abs_


def ang_close(a, b, tol=1e-6):
    import math

    if a is None or b is None:
        return a is None and b is None
    if math.isnan(a) or math.isnan(b):
        return math.isnan(a) and math.isnan(b)
    d = abs((a - b + 180.0) % 360.0 - 180.0)
    return d <= tol


# ----------------------------------------------------------------------------------------------
# verdict / evidence
# ----------------------------------------------------------------------------------------------
class Check:
    """Accumulates what a run covered and decides the verdict (DESIGN §1.4)."""

    def __init__(self, pid, level="proof"):
        self.pid = pid
        Check.current = self
        self.level = level
        self.tier = os.environ.get("VERIF_TIER", "quick")
        self.seed = int(os.environ.get("VERIF_SEED", "0"))
        self.t0 = time.time()
        self.rng = random.Random(f"{pid}-{self.seed}")
        self.evaluations = 0
        self.signatures = set()
        self.samples = []
        self.branch = {}
        self.disagreements = []   # model vs implementation
        self.oracle_failures = []  # property oracle on the implementation
        self.ambiguous = 0
        self.audit = None
        self.assumptions = []
        self.extra = {}
        self.explanation = ""
        self.known = [e for e in load_known() if e.get("property") == pid]

    # --- bookkeeping
    def count(self, key, n=1):
        self.branch[key] = self.branch.get(key, 0) + n

    def case(self, signature=None, nontrivial=True, sample=None):
        self.evaluations += 1
        if nontrivial and signature is not None:
            self.signatures.add(signature)
        if sample is not None and len(self.samples) < 3:
            self.samples.append(sample)

    def disagree(self, op, what, case, trigger=None):
        self.disagreements.append(dict(op=op, what=what, case=case, trigger=trigger))

    current = None

    def fail(self, op, what, case, trigger=None):
        """Property oracle failure on the implementation."""
        self.oracle_failures.append(dict(op=op, what=what, case=case, trigger=trigger or f"unclassified:{op}"))

    def do_audit(self):
        self.audit = audit(self.pid)
        return self.audit

    # --- verdict
    def finish(self):
        lines = []
        rc = 0
        known_hit = {}
        unlisted = []
        for f in self.oracle_failures:
            ent = match_known(self.known, f)
            if ent is not None:
                known_hit.setdefault(ent["id"], (ent, f))
            else:
                unlisted.append(f)
        for eid, (ent, f) in sorted(known_hit.items()):
            lines.append(f"KNOWN-FINDING: property={self.pid} {ent['id']}: {ent['what']}")
        broken = list(self.audit["broken"]) if self.audit else []
        # disagreements explained by a known finding's trigger are not alarms
        unexplained = [d for d in self.disagreements if match_known(self.known, d) is None]
        replay = None
        if unlisted:
            replay = self.write_replay(dict(kind="oracle-failure", failures=unlisted[:5]))
            lines.append(f"VIOLATION property={self.pid} replay={replay}")
            rc = 1
        elif broken or unexplained:
            replay = self.write_replay(dict(kind="obligation-or-correspondence-broken", broken_obligations=broken,
                                            disagreements=unexplained[:5],
                                            note="no failing input found by the property oracle on the explored inputs"))
            lines.append(f"VIOLATION property={self.pid} replay={replay} no-failing-input-found")
            rc = 1
        self.write_evidence(len(unlisted) + (1 if (broken or unexplained) and not unlisted else 0), sorted(known_hit))
        for l in lines:
            print(l, flush=True)
        log(f"[{self.pid}] tier={self.tier} seed={self.seed} evals={self.evaluations} distinct={len(self.signatures)} "
            f"disagreements={len(self.disagreements)} oracle_failures={len(self.oracle_failures)} "
            f"(known {len(self.oracle_failures) - len(unlisted)}) ambiguous={self.ambiguous} "
            f"obligations={self.audit['discharged'] if self.audit else '-'}/{self.audit['obligations'] if self.audit else '-'} "
            f"wall={time.time() - self.t0:.1f}s rc={rc}")
        if broken:
            log("broken obligations:", *broken[:10], sep="\n  ")
            if self.audit and not self.audit["discharged"]:
                log(self.audit["log"][-3000:])
        for d in unexplained[:3]:
            log("disagreement:", json.dumps(d, default=str)[:1500])
        if unlisted:
            hist = {}
            for f in unlisted:
                hist[(f["op"], f["trigger"])] = hist.get((f["op"], f["trigger"]), 0) + 1
            log("unlisted oracle failures by (op, trigger):", sorted(hist.items(), key=lambda kv: -kv[1])[:20])
        for f in unlisted[:3]:
            log("oracle failure:", json.dumps(f, default=str)[:1500])
        return rc

    def write_replay(self, obj):
        d = ROOT / "replays"
        d.mkdir(exist_ok=True)
        p = d / f"{self.pid}-{self.seed}-{self.tier}.json"
        obj = dict(property=self.pid, seed=self.seed, tier=self.tier, **obj)
        p.write_text(json.dumps(obj, indent=1, default=str))
        return str(p.relative_to(ROOT))

    def write_evidence(self, violations, known_ids):
        a = self.audit or dict(obligations=0, discharged=0, theorems=[], axioms={})
        cov = dict(
            evaluations=self.evaluations,
            distinct_nontrivial=len(self.signatures),
            rule=self.extra.pop("rule", "distinct (branch-signature, shape-class) of non-degenerate generated cases"),
            samples=self.samples or ["(none)"],
            branch_histogram=dict(sorted(self.branch.items())),
            ambiguous_skipped=self.ambiguous,
            model_vs_impl_disagreements=len(self.disagreements),
            oracle_failures=len(self.oracle_failures),
            known_findings_reproduced=known_ids,
        )
        if self.level == "proof":
            cov.update(
                obligations=a["obligations"], discharged=a["discharged"],
                checker_cmd=f"cd lean && lake build WsVerif.Props.{self.pid} && lake env lean .build/audit_{self.pid}.lean  (#print axioms of every theorem)",
                trusted_base=["Lean 4.33 kernel", "axioms ⊆ {propext, Classical.choice, Quot.sound}",
                              "Mathlib v4.33 modules imported by proof files",
                              "hand-written model tied to the code by the correspondence run reported here",
                              "translators harness/translate*.py (literals, kernels, accessor methods, assembly, tracking, selection, "
                              "constructors, regridding, smoothing, frame IR with its fresh/view tables, axis/rechunk audit, C-text digests) "
                              "and the numpy/xarray reading written down in Model/*Rt.lean, NpArr.lean, DimSem.lean, FrameIR.lean"],
                theorems=a["theorems"],
            )
        elif a.get("obligations"):
            cov.update(lean_obligations=a["obligations"], lean_discharged=a["discharged"], theorems=a["theorems"])
        if a.get("leanchecker"):
            cov["kernel_recheck"] = "lake env leanchecker (stand-alone kernel re-check of the compiled Props modules): " + a["leanchecker"]
        if self.level == "other" or self.explanation:
            cov["explanation"] = self.explanation or "see MANIFEST level text"
        cov.update(self.extra)
        ev = dict(property_id=self.pid, tier=self.tier if self.tier in ("quick", "thorough") else "quick", seed=self.seed,
                  level=self.level, coverage=cov, assumptions=self.assumptions, wall_s=round(time.time() - self.t0, 2),
                  violations=violations)
        (ROOT / "evidence").mkdir(exist_ok=True)
        (ROOT / "evidence" / f"{self.pid}.json").write_text(json.dumps(ev, indent=1, default=str))


class PmapTimeout(Exception):
    pass


class PmapResourceError(Exception):
    """A worker exceeded its memory limit while running the implementation on a generated case."""

    def __init__(self, failures, kind="memory"):
        super().__init__(f"{len(failures)} case(s): {kind}: {failures[:2]}")
        self.failures = failures
        self.kind = kind


class _PmapFailure:
    def __init__(self, kind, item):
        self.kind, self.item = kind, item


def _limit_worker_memory():
    """Per-worker address-space limit (VERIF_WORKER_MEM_GB, default 8): an implementation that starts allocating tens of
    gigabytes on a small generated case (e.g. a garbage partition count from a broken native routine) gets a MemoryError
    instead of taking the machine down."""
    try:
        import resource

        gb = float(os.environ.get("VERIF_WORKER_MEM_GB", "8"))
        if gb > 0:
            resource.setrlimit(resource.RLIMIT_AS, (int(gb * 2 ** 30), int(gb * 2 ** 30)))
    except Exception:
        pass


class _Guarded:
    def __init__(self, fn):
        self.fn = fn

    def __call__(self, x):
        try:
            return self.fn(x)
        except MemoryError:
            import gc

            gc.collect()
            return _PmapFailure("memory", repr(x)[:200])


def pmap(fn, items, nproc=None, timeout=None):
    """Fork-based parallel map (the implementation is called in-process inside each worker).

    `timeout` (seconds, default VERIF_PMAP_TIMEOUT or 2400) bounds the whole map: a worker stuck inside native code
    (e.g. memory corrupted by a broken C routine) would otherwise block the check forever.  On expiry the pool is
    terminated and PmapTimeout is raised (checks map it to exit 2 or to a termination failure where the property
    is about termination)."""
    import multiprocessing as mp

    items = list(items)
    nproc = nproc or min(int(os.environ.get("VERIF_NPROC", "12")), max(1, len(items)))
    timeout = timeout or float(os.environ.get("VERIF_PMAP_TIMEOUT", "2400"))
    if nproc <= 1 or len(items) < 4:
        return [fn(x) for x in items]
    import concurrent.futures as cf
    from concurrent.futures.process import BrokenProcessPool

    ctx = mp.get_context("fork")
    ex = cf.ProcessPoolExecutor(max_workers=nproc, mp_context=ctx, initializer=_limit_worker_memory)
    try:
        try:
            out = list(ex.map(_Guarded(fn), items, chunksize=max(1, len(items) // (nproc * 4)), timeout=timeout))
        except cf.TimeoutError:
            raise PmapTimeout(f"parallel map of {len(items)} cases did not finish within {timeout:.0f} s")
        except BrokenProcessPool:
            # a worker process disappeared (the native code called exit()/abort(), or crashed) while running generated cases
            raise PmapResourceError([f"a worker process died while running {getattr(fn, '__name__', 'cases')} on {len(items)} generated cases "
                                     f"(first case {repr(items[0])[:80]})"], kind="died")
        bad = [o for o in out if isinstance(o, _PmapFailure)]
        if bad:
            raise PmapResourceError([b.item for b in bad])
        return out
    finally:
        for p_ in list(getattr(ex, "_processes", {}).values()):
            try:
                p_.terminate()
            except Exception:
                pass
        ex.shutdown(wait=False, cancel_futures=True)


def case_rng(pid, seed, icase):
    return random.Random(f"{pid}-{seed}-{icase}")


def _find_key(obj, key, out):
    if isinstance(obj, dict):
        for k, v in obj.items():
            if k == key and isinstance(v, int):
                out.add(v)
            else:
                _find_key(v, key, out)
    elif isinstance(obj, list):
        for v in obj:
            _find_key(v, key, out)


def replay_ids(ck, n):
    """Case ids to run: all of range(n), or — with `./check Cxx --replay <file>` — only the cases named in the replay file
    (every generated case is a function of (seed, icase), so a replay re-runs exactly those cases against the current tree)."""
    path = os.environ.get("VERIF_REPLAY")
    if not path:
        return list(range(n))
    rp = json.loads((ROOT / path).read_text() if not os.path.isabs(path) else Path(path).read_text())
    ck.seed = int(rp.get("seed", ck.seed))
    ck.tier = rp.get("tier", ck.tier)
    ids = set()
    _find_key(rp, "icase", ids)
    log(f"[{ck.pid}] replay of {path}: seed={ck.seed} tier={ck.tier} cases={sorted(ids)[:20]}{'…' if len(ids) > 20 else ''}")
    return sorted(ids) if ids else list(range(n))


def load_known():
    p = ROOT / "known_findings.json"
    if not p.exists():
        return []
    return [e for e in json.loads(p.read_text())["findings"] if e.get("status") == "known"]


def match_known(known, failure):
    for e in known:
        if e.get("trigger") == failure.get("trigger") and (e.get("op") in (None, "*", failure.get("op"))):
            return e
    return None


def main_wrapper(fn):
    """Run a check body; harness crashes are exit 2 (never a VIOLATION)."""
    try:
        rc = fn()
    except SystemExit:
        raise
    except PmapResourceError as e:
        # the implementation blew the memory limit on small generated cases: whatever the operation should have returned,
        # it did not return it; reported as a failure of the property with the cases (seed, index) as the replay
        ck = Check.current
        if ck is None:
            traceback.print_exc()
            sys.exit(2)
        for it in e.failures[:5]:
            if e.kind == "died":
                ck.fail("resource", f"the interpreter running the implementation was killed from inside (exit()/abort()/crash in native code): {it}",
                        dict(case=it), "native_process_death")
            else:
                ck.fail("resource", f"the implementation exceeded the per-worker memory limit ({os.environ.get('VERIF_WORKER_MEM_GB', '8')} GB) "
                                    f"on generated case {it} (cases are a few kB)", dict(case=it), "memory_blowup")
        rc = ck.finish()
    except Exception:
        traceback.print_exc()
        sys.exit(2)
    sys.exit(rc)

#!/bin/bash
# Build the framework offline from files on disk: regenerate T-tier Lean files, build models, proofs, driver, C drivers.
set -e
cd "$(dirname "$0")"
mkdir -p .build evidence replays
export PYTHONWARNINGS=ignore
/venv/bin/python -W ignore -m harness.translate
(cd lean && lake build WsVerif driver enumsp)
[ -x harness/cdrv/build.sh ] && harness/cdrv/build.sh || true
/venv/bin/python -W ignore -c "from harness.common import build_ext; print(build_ext())"
